"""C10 helpers: results of spec/ResultViews*.tla rendered into real ``mxlpy.simulation.Simulation`` objects,
the read alphabet mapped onto the public view methods, comparison of answers, and the recorder / random
driver of the code -> spec direction."""

from __future__ import annotations

import random

from .modelkit import build_model, norm_content
from .tlc import fn_to_dict

GROUPS = ["var", "par", "dpar", "dvar", "rxn", "svar", "sflux", "ro"]
ARG_FLAGS = {
    "var": "include_variables", "par": "include_parameters", "dpar": "include_derived_parameters",
    "dvar": "include_derived_variables", "rxn": "include_reactions", "svar": "include_surrogate_variables",
    "sflux": "include_surrogate_fluxes", "ro": "include_readouts",
}
# defaults of Simulation.get_args / get_variables / get_fluxes (public signature)
ARG_DEFAULTS = {"var": True, "par": False, "dpar": False, "dvar": True, "rxn": True, "svar": False,
                "sflux": False, "ro": False}
VAR_FLAGS = {"dvar": "include_derived_variables", "ro": "include_readouts", "svar": "include_surrogate_variables"}


# ---------------------------------------------------------------------------------------------------
# spec -> code: results and reads
# ---------------------------------------------------------------------------------------------------
def norm_res(res: dict) -> dict:
    """Normalise a result record printed by TLC (functions over 1..n arrive as lists, records as dicts)."""
    segs = []
    for s in res["segs"]:
        rows = [{"t": r["t"], "y": fn_to_dict(r["y"])} for r in s["rows"]]
        segs.append({"pars": fn_to_dict(s["pars"]), "rows": rows})
    return {"variant": res["variant"], "segs": segs, "fscalar": res["fscalar"],
            "fseg": list(res["fseg"]), "frow": list(res["frow"])}


def make_model(content: dict, seed=None):
    rnd = random.Random(seed) if seed is not None else None
    m, _ = build_model(content, rnd)
    return m


def make_simulation(content: dict, res: dict, seed=None):
    """The public dataclass, constructed directly from the specification's segments."""
    import pandas as pd
    from mxlpy.simulation import Simulation

    m = make_model(content, seed)
    names = list(content["vars"])
    raw_v = [
        pd.DataFrame([[float(r["y"][n]) for n in names] for r in s["rows"]],
                     index=[float(r["t"]) for r in s["rows"]], columns=names, dtype=float)
        for s in res["segs"]
    ]
    raw_p = [{k: float(v) for k, v in s["pars"].items()} for s in res["segs"]]
    return Simulation(model=m, raw_variables=raw_v, raw_parameters=raw_p)


def simulate_result(content: dict, sim: dict, seed=None):
    """The same kind of object obtained from the real Simulator: update parameters, simulate, repeat."""
    from mxlpy import Simulator

    m = make_model(content, seed)
    y0 = {k: float(v) for k, v in fn_to_dict(sim["y0"]).items()}
    s = Simulator(m, y0=y0)
    for step in sim["steps"]:
        s.update_parameters({k: float(v) for k, v in fn_to_dict(step["pars"]).items()})
        s.simulate_time_course([float(t) for t in step["times"]])
    return s.get_result().unwrap_or_err()


def norm_argument(op: dict, res: dict, style: int = 0):
    import numpy as np

    n = op["norm"]
    if n == "none":
        return None
    if n == "scalar":
        return float(res["fscalar"]) if style % 2 == 0 else int(res["fscalar"])
    vals = [float(f) for f in (res["fseg"] if n == "seg" else res["frow"])]
    return vals if style % 2 == 0 else np.array(vals)


def call_kwargs(op: dict, res: dict, style: int = 0) -> tuple[str, tuple, dict]:
    """Public method name, positional args and keyword args realising a read of the alphabet."""
    view = op["view"]
    flags = set(op["flags"])
    kw: dict = {}
    if view in ("variables", "fluxes", "args", "rhs", "producers", "consumers"):
        kw["concatenated"] = bool(op["concat"])
        na = norm_argument(op, res, style)
        if na is not None or style % 3 == 0:
            kw["normalise"] = na
    if view == "variables":
        for g, name in VAR_FLAGS.items():
            kw[name] = g in flags
        return "get_variables", (), kw
    if view == "fluxes":
        kw["include_surrogates"] = "sflux" in flags
        return "get_fluxes", (), kw
    if view == "args":
        for g, name in ARG_FLAGS.items():
            kw[name] = g in flags
        return "get_args", (), kw
    if view == "rhs":
        return "get_right_hand_side", (), kw
    if view in ("producers", "consumers"):
        kw["scaled"] = bool(op["scaled"])
        return f"get_{view}", (op["v"],), kw
    if view == "combined":
        return "get_combined", (), {}
    if view == "newy0":
        return "get_new_y0", (), {}
    if view in ("variables_prop", "fluxes_prop"):
        return view[:-5], (), {}
    raise ValueError(f"unknown view {view}")


def canon_frames(x) -> list:
    """DataFrame | list[DataFrame] | dict -> [[{t, v: {name: float}}]] (+ marks duplicate columns)."""
    import pandas as pd

    if isinstance(x, dict):
        return [[{"t": None, "v": {k: float(v) for k, v in x.items()}}]]
    frames = [x] if isinstance(x, pd.DataFrame) else list(x)
    out = []
    for f in frames:
        if not isinstance(f, pd.DataFrame):
            raise TypeError(f"view returned {type(f).__name__}")
        cols = list(f.columns)
        if len(set(cols)) != len(cols):
            raise ValueError(f"duplicate columns {cols}")
        rows = []
        vals = f.to_numpy(dtype=float)
        for i, t in enumerate(f.index):
            rows.append({"t": float(t), "v": {c: float(vals[i, j]) for j, c in enumerate(cols)}})
        out.append(rows)
    return out


def perform(sim, op: dict, res: dict, style: int = 0):
    """Execute one op of the alphabet on the real object; returns the canonical answer (None for updates)."""
    if op["view"] == "update":
        sim.model.update_parameter(op["v"], float(op["val"]))
        return None
    name, args, kw = call_kwargs(op, res, style)
    if op["view"] in ("variables_prop", "fluxes_prop"):
        return canon_frames(getattr(sim, name))
    out = getattr(sim, name)(*args, **kw)
    if op["view"] not in ("newy0", "combined", "variables_prop", "fluxes_prop"):
        import pandas as pd

        if bool(op["concat"]) != isinstance(out, pd.DataFrame):
            raise TypeError(f"concatenated={op['concat']} returned {type(out).__name__}")
    ans = canon_frames(out)
    if isinstance(out, list):
        # what a read hands out belongs to the caller: scribbling on it must not reach the stored result
        for f in out:
            if len(f) and len(f.columns):
                f.iloc[0, 0] = -12345.0
        out.clear()
    return ans


def rel_close(exp: float, obs: float, tol: float) -> bool:
    if obs != obs:
        return False
    return abs(exp - obs) <= tol * max(1.0, abs(exp), abs(obs))


def compare(expected: list, observed: list, tol: float = 1e-9) -> dict | None:
    """expected: [[{t, d, v:{name: numerator}}]] from the specification; observed: canon_frames()."""
    if len(expected) != len(observed):
        return {"what": "number of tables", "expected": len(expected), "observed": len(observed)}
    first, cols = None, set()
    for i, (es, os_) in enumerate(zip(expected, observed)):
        if len(es) != len(os_):
            return {"what": "number of rows", "table": i, "expected": len(es), "observed": len(os_)}
        for j, (er, orow) in enumerate(zip(es, os_)):
            if orow["t"] is not None and float(er["t"]) != orow["t"] and not rel_close(float(er["t"]), orow["t"], tol):
                return {"what": "time index", "table": i, "row": j, "expected": er["t"], "observed": orow["t"]}
            ev = fn_to_dict(er["v"])
            if set(ev) != set(orow["v"]):
                return {"what": "names", "table": i, "row": j, "expected": sorted(ev), "observed": sorted(orow["v"])}
            for n, num in ev.items():
                e = num / er["d"]
                if not rel_close(e, orow["v"][n], tol):
                    cols.add(n)
                    if first is None:
                        first = {"what": "value", "table": i, "row": j, "name": n, "expected": f"{num}/{er['d']}",
                                 "observed": orow["v"][n]}
    if first is not None:
        first["columns"] = sorted(cols)     # every column with a wrong value somewhere in this answer
    return first


def replay_sequence(table: dict, seq: list[int], via: str, seed, tol: float) -> dict | None:
    """Drive one read sequence (1-based op ids) through a fresh real result; first disagreement or None."""
    content, res = table["content"], table["res"]
    if via == "simulator":
        sim = simulate_result(content, table["sim"], seed)
    else:
        sim = make_simulation(content, res, seed)
    stored = snapshot(sim)
    declared = declared_parameters(sim.model)
    for step, k in enumerate(seq):
        op = table["ops"][k - 1]
        style = (hash((seed, step, k)) & 0xFFFF) if seed is not None else 0
        try:
            obs = perform(sim, op, res, style)
        except Exception as e:  # noqa: BLE001
            return {"step": step, "op": op, "what": "exception", "exc": type(e).__name__, "message": str(e)[:200]}
        changed = result_changed(sim, stored)
        if changed:
            return {"step": step, "op": op, "what": "the stored result was changed by a read", **changed}
        if obs is None:
            declared = declared_parameters(sim.model)
            continue
        now = declared_parameters(sim.model)
        if now != declared:
            return {"step": step, "op": op, "what": "the model's parameter declarations were changed by a read",
                    "before": declared, "after": now}
        bad = compare(table["answers"][k - 1], obs, tol)
        if bad:
            return {"step": step, "op": op, **bad}
    if via == "constructor" and len(seq) == 1:
        bad = epilogue(table, sim, declared)
        if bad:
            return {"step": len(seq), **bad}
    return None


def epilogue(table: dict, sim, declared: dict) -> dict | None:
    """After a single-read sequence: (a) asking for the producers of an unknown variable is refused and leaves the
    model's declarations alone; (b) a readout added to the model AFTER the reads does not make later reads fail, and
    the columns the specification knows keep their values (what is reported for the new readout is not specified)."""
    from . import fnlib

    try:
        sim.get_producers("no_such_variable", scaled=True)
        return {"what": "producers of an unknown variable were answered"}
    except Exception:  # noqa: BLE001  (the class of the refusal is not specified)
        pass
    now = declared_parameters(sim.model)
    if now != declared:
        return {"what": "the model's parameter declarations were changed by a read", "op": {"view": "producers-unknown"},
                "before": declared, "after": now}
    k = next((i for i, o in enumerate(table["ops"]) if o["view"] == "variables" and set(o["flags"]) == {"dvar", "svar", "ro"}
              and o["norm"] == "none" and o["concat"]), None)
    if k is None:
        return None
    op = table["ops"][k]
    try:
        sim.variables            # the argument table is filled before the model is edited
        sim.model.add_readout("ro_late", fnlib.FNS["dbl"], args=["x"])
        obs = perform(sim, op, table["res"], 0)
    except Exception as e:  # noqa: BLE001
        return {"what": "exception", "op": dict(op, after="add_readout"), "exc": type(e).__name__, "message": str(e)[:200]}
    for tab in obs:
        for row in tab:
            row["v"].pop("ro_late", None)
    bad = compare(table["answers"][k], obs, 1e-9)
    if bad:
        return {"op": dict(op, after="add_readout"), **bad}
    return None


def declared_parameters(model) -> dict:
    """The model's parameter declarations (numbers and assignments): reading a result must leave them alone."""
    out = {}
    for k, par in model.get_raw_parameters(as_copy=False).items():
        v = par.value
        if hasattr(v, "fn") and hasattr(v, "args"):
            out[k] = ("assignment", getattr(v.fn, "__name__", "?"), tuple(v.args))
        else:
            out[k] = float(v)        # int, float or a numpy scalar
    return out


def snapshot(sim) -> dict:
    """What the result holds (raw state frames, parameter snapshots): reading must never change it."""
    return {"vars": [f.copy(deep=True) for f in sim.raw_variables],
            "pars": [dict(p) for p in sim.raw_parameters]}


def result_changed(sim, stored: dict) -> dict | None:
    if len(sim.raw_variables) != len(stored["vars"]) or len(sim.raw_parameters) != len(stored["pars"]):
        return {"detail": "number of segments"}
    for i, (a, b) in enumerate(zip(sim.raw_variables, stored["vars"])):
        if not a.equals(b):
            return {"segment": i, "stored_before": b.to_dict("split"), "stored_now": a.to_dict("split")}
    for i, (a, b) in enumerate(zip(sim.raw_parameters, stored["pars"])):
        if dict(a) != b:
            return {"segment": i, "parameters_before": b, "parameters_now": dict(a)}
    return None


def replay_session(table: dict, events: list[dict], ns: list[int], seed, tol: float = 1e-6) -> dict | None:
    """One Simulator session of spec/ResultViewsSession.tla through the real Simulator: Continue = update parameters
    + simulate_time_course, GetResult = get_result(), Read = a view of the h-th handed-out result.  Every answer
    is compared with the specification's view of the segments present when that result was handed out; the
    stored lists of every handed-out result must stay what they were at hand-out."""
    from mxlpy import Simulator

    content, sim = table["content"], table["sim"]
    m = make_model(content, seed)
    s = Simulator(m, y0={k: float(v) for k, v in fn_to_dict(sim["y0"]).items()})
    results, stored, k = [], [], 0
    for step, ev in enumerate(events):
        try:
            if ev["e"] == "continue":
                st = sim["steps"][k]
                s.update_parameters({n: float(v) for n, v in fn_to_dict(st["set"]).items()})
                s.simulate_time_course([float(t) for t in st["times"]])
                k += 1
            elif ev["e"] in ("edit", "editx"):
                m.update_variable("x", float(table["editx0"]))
            elif ev["e"] == "editp":        # the assignment-defined parameter is replaced by a number ON THE MODEL
                m.update_parameter("p", float(table.get("editp", 50)))
            elif ev["e"] == "readdp":
                m.remove_parameter("p")
                m.add_parameter("p", float(table.get("editp", 50)))
            elif ev["e"] == "get":
                r = s.get_result().unwrap_or_err()
                results.append(r)
                stored.append(snapshot(r))
                if len(r.raw_variables) != k:
                    return {"step": step, "event": ev, "what": "a handed-out result does not cover all segments",
                            "segments": len(r.raw_variables), "simulated": k}
            else:
                h, j = ev["h"] - 1, ev["op"] - 1
                n = ns[h]
                op = table["ops"][j]
                before = declared_parameters(m)
                obs = perform(results[h], op, table["res"][n - 1], 0)
                bad = compare(table["answers"][n - 1][j], obs, tol)
                if bad:
                    return {"step": step, "event": ev, "op": op, "result_segments": n, **bad}
                after = declared_parameters(m)
                if after != before:
                    return {"step": step, "event": ev, "op": op, "before": before, "after": after,
                            "what": "the model's parameter declarations were changed by a read"}
        except Exception as e:  # noqa: BLE001  (the library's answer to this history)
            return {"step": step, "event": ev, "what": "exception", "exc": type(e).__name__, "message": str(e)[:200]}
        for h, (r, st0) in enumerate(zip(results, stored)):
            ch = result_changed(r, st0)
            if ch:
                return {"step": step, "event": ev, "what": "a handed-out result was changed afterwards", "result": h + 1, **ch}
    return None


# ---------------------------------------------------------------------------------------------------
# finding keys: from the SHAPE of the failing read
# ---------------------------------------------------------------------------------------------------
def state_dependent_fluxes(content: dict, var: str) -> set[str]:
    """Fluxes touching ``var`` with a computed coefficient that is not a function of parameters only."""
    parlike = set(content["pars"]) | {d for d, c in content["der"].items()
                                      if all(a in content["pars"] for a in c["args"])}
    sts = {n: r["st"] for n, r in content["rxn"].items()}
    for s in content["sur"].values():
        sts.update(s["st"])
    out = set()
    for flux, st in sts.items():
        co = st.get(var)
        if co and co["k"] == "calc" and not all(a in parlike for a in co["args"]):
            out.add(flux)
    return out


def classify(content: dict, res: dict, op: dict, detail: dict) -> str | None:
    nrows = sum(len(s["rows"]) for s in res["segs"])
    if op.get("norm") == "row" and nrows != len(res["segs"]):
        # one factor per row: the implementation answered with no tables at all (concatenation of nothing raises)
        if detail.get("what") == "exception" and detail.get("exc") == "ValueError" and "concatenate" in detail.get("message", ""):
            return "per-row-normalise"
        if detail.get("what") == "number of tables" and detail.get("observed") == 0:
            return "per-row-normalise"
    if op.get("view") in ("producers", "consumers") and op.get("scaled") and detail.get("what") == "value":
        # only the columns whose coefficient is state-dependent may be wrong
        cols = set(detail["columns"]) if "columns" in detail else {detail.get("name")}
        if cols and cols <= state_dependent_fluxes(content, op["v"]):
            return "scaled-state-dependent-coefficient"
    return None


def classify_session(events: list[dict], detail: dict) -> str | None:
    """Shape of the pinned-commit defect: the simulator was continued after a result had been handed out, and that
    result's stored lists grew (its number of segments changed)."""
    kinds = [e["e"] for e in events[: detail.get("step", len(events)) + 1]]
    if "get" in kinds and "continue" in kinds[kinds.index("get"):] \
            and detail.get("what") == "a handed-out result was changed afterwards" \
            and detail.get("detail") == "number of segments":
        return "result-shares-simulator-lists"
    return None


def classify_round5(res: dict, detail: dict) -> str | None:
    """Shapes of the three defects repaired in the last round-5 commit."""
    op = detail.get("op") or {}
    if detail.get("what") == "the stored result was changed by a read" and op.get("view") == "variables" \
            and not op.get("flags") and not op.get("concat"):
        return "state-only-view-hands-out-stored-frames"
    if op.get("after") == "add_readout" and detail.get("what") == "exception":
        return "readout-added-after-read"
    if op.get("view") == "producers-unknown":
        return "unknown-variable-leaves-segment-parameters"
    return None


def classify_assignment(table: dict, events: list[dict], detail: dict) -> str | None:
    """Shapes of the defect repaired in 57ef329 (model with an assignment-defined parameter; a result recorded only
    number-valued parameters): a value / declaration mismatch on a read of the Simulator session."""
    has_ia = any(v.get("k") == "ia" for v in table["content"]["pars"].values())
    if has_ia and detail.get("what") in ("value", "the model's parameter declarations were changed by a read"):
        return "assignment-parameter-not-recorded"
    if not has_ia and detail.get("what") == "the model's parameter declarations were changed by a read":
        return "read-leaves-segment-parameters"
    return None


# ---------------------------------------------------------------------------------------------------
# code -> spec: recorder and seeded driver
# ---------------------------------------------------------------------------------------------------
class Recorder:
    """Wraps the public view methods of one Simulation object; logs (read, flags, digest of the answer)."""

    METHODS = ["get_variables", "get_fluxes", "get_args", "get_right_hand_side", "get_producers", "get_consumers",
               "get_combined", "get_new_y0"]

    def __init__(self, sim, nseg: int, nrows: int):
        self.sim = sim
        self.nseg = nseg
        self.nrows = nrows
        self.events: list[dict] = []
        self.stored = snapshot(sim)

    def _rawsame(self) -> bool:
        return result_changed(self.sim, self.stored) is None

    # -- what was asked, in the specification's vocabulary (API defaults applied) -------------------
    def _op(self, method: str, args: tuple, kw: dict) -> dict:
        op = {"view": "", "flags": [], "v": "x", "scaled": False, "concat": True, "norm": "none", "val": 0,
              "fscalar": 1, "fseg": [1] * self.nseg, "frow": [1] * self.nrows}
        if method == "get_variables":
            op["view"] = "variables"
            op["flags"] = [g for g, n in VAR_FLAGS.items() if kw.get(n, True)]
        elif method == "get_fluxes":
            op["view"] = "fluxes"
            op["flags"] = ["sflux"] if kw.get("include_surrogates", True) else []
        elif method == "get_args":
            op["view"] = "args"
            op["flags"] = [g for g, n in ARG_FLAGS.items() if kw.get(n, ARG_DEFAULTS[g])]
        elif method == "get_right_hand_side":
            op["view"] = "rhs"
        elif method in ("get_producers", "get_consumers"):
            op["view"] = method[4:]
            op["v"] = args[0] if args else kw["variable"]
            op["scaled"] = bool(kw.get("scaled", False))
        elif method == "get_combined":
            op["view"] = "combined"
        elif method == "get_new_y0":
            op["view"] = "newy0"
        if method not in ("get_combined", "get_new_y0"):
            op["concat"] = bool(kw.get("concatenated", True))
            na = kw.get("normalise")
            if na is not None:
                if isinstance(na, int | float):
                    op["norm"], op["fscalar"] = "scalar", int(na)
                elif len(na) == self.nseg:
                    op["norm"], op["fseg"] = "seg", [int(f) for f in na]
                else:
                    op["norm"], op["frow"] = "row", [int(f) for f in na]
        return op

    def _factor(self, op: dict, i: int, j: int, offset: int) -> int:
        return {"none": 1, "scalar": op["fscalar"], "seg": op["fseg"][i] if i < len(op["fseg"]) else 1,
                "row": op["frow"][offset + j] if offset + j < len(op["frow"]) else 1}[op["norm"]]

    def _digest(self, op: dict, out) -> dict:
        """Integer numerators (value x the row's factor), rows located in their segment by their running index."""
        frames = canon_frames(out)
        seg_lens = self._seg_lens
        where = [(i, j) for i, ln in enumerate(seg_lens) for j in range(ln)]
        ans, g = [], 0
        for rows in frames:
            tab = []
            for r in rows:
                if op["view"] == "newy0":
                    d, t = 1, -1
                else:
                    si, sj = where[g] if g < len(where) else (0, 0)
                    d = self._factor(op, si, sj, sum(seg_lens[:si]))
                    t = r["t"]
                    if not float(t).is_integer():
                        return {"ans": [], "exc": "NonIntegerTime", "message": repr(t)}
                    t = int(t)
                v = {}
                for n, x in r["v"].items():
                    y = x * d
                    if y != y or abs(y - round(y)) > 1e-6 * max(1.0, abs(y)):
                        return {"ans": [], "exc": "NonIntegerValue", "message": f"{n}={x!r} (factor {d})"}
                    v[n] = int(round(y))
                tab.append({"t": t, "v": v})
                g += 1
            ans.append(tab)
        return {"ans": ans, "exc": ""}

    def call(self, method: str, *args, **kw):
        op = self._op(method, args, kw)
        ev = {"op": op}
        try:
            out = getattr(self.sim, method)(*args, **kw)
            ev.update(self._digest(op, out))
        except Exception as e:  # noqa: BLE001
            ev["ans"] = []
            ev["exc"] = type(e).__name__
            ev["message"] = str(e)[:200]
        ev["rawsame"] = self._rawsame()
        self.events.append(ev)
        return ev

    def prop(self, name: str):
        op = self._op("get_variables" if name == "variables" else "get_fluxes", (), {})
        ev = {"op": op}
        try:
            ev.update(self._digest(op, getattr(self.sim, name)))
        except Exception as e:  # noqa: BLE001
            ev["ans"] = []
            ev["exc"] = type(e).__name__
            ev["message"] = str(e)[:200]
        ev["rawsame"] = self._rawsame()
        self.events.append(ev)
        return ev

    def update(self, par: str, val: float):
        self.sim.model.update_parameter(par, float(val))
        self.events.append({"op": {"view": "update", "flags": [], "v": par, "scaled": False, "concat": True,
                                   "norm": "none", "val": int(val), "fscalar": 1, "fseg": [1] * self.nseg,
                                   "frow": [1] * self.nrows},
                            "ans": [], "exc": "", "rawsame": self._rawsame()})

    @property
    def _seg_lens(self):
        return [len(f) for f in self.sim.raw_variables]


def random_result(rnd: random.Random) -> dict:
    variant = rnd.choice(["par", "state", "sur", "par", "state"])
    while True:
        nseg = rnd.randint(1, 3)
        lens = [rnd.randint(1, 3) for _ in range(nseg)]
        if sum(lens) != nseg:
            break
    t = rnd.randint(0, 2)
    segs = []
    for ln in lens:
        rows = []
        for _ in range(ln):
            rows.append({"t": t, "y": {"x": rnd.randint(0, 6), "y": rnd.randint(0, 6)}})
            t += rnd.randint(1, 3)
        segs.append({"pars": {"p": rnd.randint(1, 9), "q": rnd.randint(1, 13)}, "rows": rows})
    return {"variant": variant, "segs": segs, "fscalar": 1, "fseg": [1] * nseg, "frow": [1] * sum(lens)}


def drive(rnd: random.Random, rec: Recorder, n_events: int) -> None:
    """A seeded client of the public API: random reads with random flags / defaults / normalisation, and updates."""
    import numpy as np

    facs = [2, 3, 4, 5, 7]
    for _ in range(n_events):
        kind = rnd.choice(["variables", "fluxes", "args", "args", "rhs", "producers", "consumers", "combined",
                           "newy0", "prop", "update", "update"])
        if kind == "update":
            rec.update(rnd.choice(["p", "q"]), rnd.choice([-5, -1, 0, 2, 20, 99]))
            continue
        if kind == "prop":
            rec.prop(rnd.choice(["variables", "fluxes"]))
            continue
        if kind == "combined":
            rec.call("get_combined")
            continue
        if kind == "newy0":
            rec.call("get_new_y0")
            continue
        kw: dict = {}
        if rnd.random() < 0.7:
            kw["concatenated"] = rnd.random() < 0.5
        shape = rnd.choice(["none", "none", "scalar", "seg", "row"])
        if shape == "scalar":
            kw["normalise"] = rnd.choice([float(rnd.choice(facs)), rnd.choice(facs)])
        elif shape in ("seg", "row"):
            n = rec.nseg if shape == "seg" else rec.nrows
            vals = [float(rnd.choice(facs)) for _ in range(n)]
            kw["normalise"] = vals if rnd.random() < 0.5 else np.array(vals)
        elif rnd.random() < 0.3:
            kw["normalise"] = None
        if kind == "variables":
            for n in VAR_FLAGS.values():
                if rnd.random() < 0.6:
                    kw[n] = rnd.random() < 0.5
            rec.call("get_variables", **kw)
        elif kind == "fluxes":
            if rnd.random() < 0.6:
                kw["include_surrogates"] = rnd.random() < 0.5
            rec.call("get_fluxes", **kw)
        elif kind == "args":
            for n in ARG_FLAGS.values():
                if rnd.random() < 0.6:
                    kw[n] = rnd.random() < 0.5
            rec.call("get_args", **kw)
        elif kind == "rhs":
            rec.call("get_right_hand_side", **kw)
        else:
            if rnd.random() < 0.7:
                kw["scaled"] = rnd.random() < 0.5
            rec.call(f"get_{kind}", rnd.choice(["x", "y"]), **kw)


def record_trace(args) -> dict:
    """One recorded trace: a random result, constructed directly, read by the seeded driver."""
    seed, tid, n_events, contents = args
    rnd = random.Random(f"{seed}/trace/{tid}")
    res = random_result(rnd)
    content = contents[res["variant"]]
    sim = make_simulation(content, res, seed=f"{seed}/{tid}")
    rec = Recorder(sim, len(res["segs"]), sum(len(s["rows"]) for s in res["segs"]))
    drive(rnd, rec, n_events)
    return {"id": tid, "res": res, "events": rec.events}


__all__ = ["norm_content", "norm_res"]
