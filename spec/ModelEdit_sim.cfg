\* seeded random histories of depth 12 over the full alphabet
CONSTANTS
    Depth = 12
    Seeds = {"empty", "vp", "vv", "sur", "dyn", "dataia", "dangle"}
    OpSet = "all"
    EmitOn = TRUE
INIT Init
NEXT Next
INVARIANT Emit
CHECK_DEADLOCK FALSE
