\* C17 sessions (specification): every session of 4 calls over 3 documents; ReadAlone holds; all sessions emitted
CONSTANTS
    Docs = {1, 2, 3}
    MaxOps = 4
    Registry = "none"
    RewriteDocs = {1}
    EmitOn = TRUE
INIT Init
NEXT Next
INVARIANT ReadAlone
INVARIANT Emit
CHECK_DEADLOCK FALSE
