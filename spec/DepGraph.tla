---------------------------- MODULE DepGraph ----------------------------
(***************************************************************************)
(* The order-free CONTRACT of dependency resolution (C02), as pure         *)
(* operators over an explicit graph:                                       *)
(*   comps : set of component names                                        *)
(*   prov  : [comps -> SUBSET Name]   names a component provides           *)
(*   req   : [comps -> SUBSET Name]   names a component requires           *)
(*   base  : SUBSET Name              names available from the start       *)
(* Used by DepSort (bounded exhaustive), DepSortOracle (graphs observed    *)
(* in the implementation) and MxlModel (evaluation order of a model).      *)
(***************************************************************************)
EXTENDS Naturals, FiniteSets, FiniteSetsExt

GProvided(comps, prov) == UNION {prov[k] : k \in comps}

GMissing(comps, prov, req, base) ==
    [k \in comps |-> req[k] \ (base \cup GProvided(comps, prov))]

\* A reaction's computed stoichiometric coefficient takes names too (coefreq[k], empty for everything but
\* such reactions).  They belong to the completeness clause -- a coefficient naming something nothing provides
\* makes its reaction a component "naming something that does not exist" -- but not to the order: coefficients
\* are evaluated once every component has its value, so they can close no cycle.
GCoefMissing(comps, prov, coefreq, base) ==
    [k \in comps |-> coefreq[k] \ (base \cup GProvided(comps, prov))]
GHasMissing(comps, prov, req, base) ==
    \E k \in comps : GMissing(comps, prov, req, base)[k] # {}

RECURSIVE GLfp(_, _, _, _)
GLfp(comps, prov, req, S) ==
    LET T == S \cup UNION {prov[k] : k \in {j \in comps : req[j] \subseteq S}}
    IN IF T = S THEN S ELSE GLfp(comps, prov, req, T)

\* cyclicity is judged with every unprovided name assumed available, so that "missing"
\* and "circular" are independent attributes of a graph
GResolvable(comps, prov, req, base) ==
    LET ghosts == UNION {GMissing(comps, prov, req, base)[k] : k \in comps}
    IN GProvided(comps, prov) \subseteq GLfp(comps, prov, req, base \cup ghosts)

\* the set of acceptable outcomes (when a graph is both incomplete and cyclic the
\* statement does not rank the two errors, either is acceptable)
GOutcomeKinds(comps, prov, req, base) ==
    IF GHasMissing(comps, prov, req, base)
    THEN (IF GResolvable(comps, prov, req, base) THEN {"missing"} ELSE {"missing", "circular"})
    ELSE IF ~GResolvable(comps, prov, req, base) THEN {"circular"} ELSE {"ok"}

(***************************************************************************)
(* Witness values: a provided name n (the j-th output of its component, in *)
(* the order given by rank[n] \in Nat) evaluates to rank[n] + sum of the   *)
(* values its component requires; base names have the values in benv.      *)
(* The value encodes the whole sub-graph below a name, so "each component  *)
(* saw the finished value of everything it names" is observable.           *)
(***************************************************************************)
GSum(S, env) == FoldSet(LAMBDA n, acc : acc + env[n], 0, S)

RECURSIVE GSaturate(_, _, _, _, _)
GSaturate(comps, prov, req, rank, env) ==
    LET ready == {k \in comps : req[k] \subseteq DOMAIN env /\ ~(prov[k] \subseteq DOMAIN env)}
    IN IF ready = {} THEN env
       ELSE LET new == UNION {prov[k] : k \in ready}
                owner(n) == CHOOSE k \in ready : n \in prov[k]
            IN GSaturate(comps, prov, req, rank,
                         [n \in DOMAIN env \cup new |->
                             IF n \in DOMAIN env THEN env[n]
                             ELSE rank[n] + GSum(req[owner(n)], env)])

GValues(comps, prov, req, rank, benv) == GSaturate(comps, prov, req, rank, benv)
=============================================================================
