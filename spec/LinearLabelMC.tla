--------------------------- MODULE LinearLabelMC ---------------------------
(***************************************************************************)
(* C16 -- case family over LinearLabel: steady-state mass-action networks  *)
(* x label counts x ALL maps (every reaction, max(S,P) entries) x          *)
(* isotopomer distributions consistent with the steady pools, built by     *)
(* actions.  On every finished case TLC checks                             *)
(*   ThSteady   the chosen pools and rate constants are a steady state     *)
(*   ThDist     the isotopomer distribution has the steady pools as totals *)
(*   ThLinIsIso the linear model (LinMode) at the enrichments of the       *)
(*              distribution, EXT = 1, has exactly the rate of change the  *)
(*              isotopomer model gives to every position's enrichment      *)
(*   ThUniform  uniform enrichment x with EXT = x is stationary            *)
(*   ThZero     no label and EXT = 0: nothing appears                      *)
(*   ThInvol    for involutive maps the pinned shape coincides with the    *)
(*              documented reading (explains the shape of the finding)     *)
(* and emits the case with the predicted right-hand sides.                 *)
(* LinMode = "doc" is the definition; LinMode = "pinned" (the substrate -> *)
(* product reading of the pinned implementation) must be REJECTED by TLC   *)
(* (ThLinIsIso) -- run with expect_violation.                              *)
(***************************************************************************)
EXTENDS LinearLabel, SequencesExt, Json

CONSTANTS
    Tpls, MaxNL, MaxL,
    Focus,            \* TRUE: reactions without substrate or without product atoms (influx / efflux) take only the
                      \* identity, the reversal and the constant-0 map (their maps multiply the family otherwise)
    OnlyInvolutive,   \* TRUE: build only involutive maps (used to show that the pinned shape is right on them)
    DistAll,          \* TRUE: every combination of distributions per compound; FALSE: one rotating choice
    LinMode,          \* "doc" | "pinned"
    EmitOn

VARIABLES tpl, nl, maps, ci, ri, dk, stage
vars == <<tpl, nl, maps, ci, ri, dk, stage>>

Empty == [n \in {} |-> 0]
Rx(name, subs, prods, args) ==
    [name |-> name, subs |-> subs, prods |-> prods, args |-> args, mapped |-> TRUE, map |-> <<>>]

\* pools (= base initial amounts) and rate constants chosen so that the network is at steady state;
\* pools are pairwise different so that a coefficient using the wrong pool shows
Tpl(id) ==
    CASE id = "chain" -> [cpds |-> <<"A", "B">>,
                          init |-> [A |-> 12, B |-> 6], pars |-> [k0 |-> 12, k1 |-> 1, k2 |-> 2],
                          rxns |-> <<Rx("v0", <<>>, <<"A">>, <<"k0">>),
                                     Rx("v1", <<"A">>, <<"B">>, <<"k1", "A">>),
                                     Rx("v2", <<"B">>, <<>>, <<"k2", "B">>)>>]
      [] id = "cycle" -> [cpds |-> <<"A", "B">>,
                          init |-> [A |-> 12, B |-> 6], pars |-> [k1 |-> 1, k2 |-> 2],
                          rxns |-> <<Rx("v1", <<"A">>, <<"B">>, <<"A", "k1">>),
                                     Rx("v2", <<"B">>, <<"A">>, <<"B", "k2">>)>>]
      [] id = "bi"    -> [cpds |-> <<"A", "B", "C">>,
                          init |-> [A |-> 12, B |-> 6, C |-> 4], pars |-> [k0 |-> 72, k1 |-> 1, k2 |-> 18, k3 |-> 72],
                          rxns |-> <<Rx("v0", <<>>, <<"A">>, <<"k0">>),
                                     Rx("v3", <<>>, <<"B">>, <<"k3">>),
                                     Rx("v1", <<"A", "B">>, <<"C">>, <<"A", "B", "k1">>),
                                     Rx("v2", <<"C">>, <<>>, <<"k2", "C">>)>>]
      [] id = "split" -> [cpds |-> <<"A", "B", "C">>,
                          init |-> [A |-> 12, B |-> 6, C |-> 4], pars |-> [k0 |-> 12, k1 |-> 1, k2 |-> 2, k3 |-> 3],
                          rxns |-> <<Rx("v0", <<>>, <<"A">>, <<"k0">>),
                                     Rx("v1", <<"A">>, <<"B", "C">>, <<"k1", "A">>),
                                     Rx("v2", <<"B">>, <<>>, <<"k2", "B">>),
                                     Rx("v3", <<"C">>, <<>>, <<"k3", "C">>)>>]
      [] id = "homo"  -> [cpds |-> <<"A", "B">>,
                          init |-> [A |-> 6, B |-> 12], pars |-> [k0 |-> 72, k1 |-> 1, k2 |-> 3],
                          rxns |-> <<Rx("v0", <<>>, <<"A">>, <<"k0">>),
                                     Rx("v1", <<"A", "A">>, <<"B">>, <<"A", "A", "k1">>),
                                     Rx("v2", <<"B">>, <<>>, <<"B", "k2">>)>>]
      [] id = "tri"   -> [cpds |-> <<"A", "B", "C">>,
                          init |-> [A |-> 12, B |-> 6, C |-> 4], pars |-> [k1 |-> 1, k2 |-> 2, k3 |-> 3],
                          rxns |-> <<Rx("v1", <<"A">>, <<"B">>, <<"A", "k1">>),
                                     Rx("v2", <<"B">>, <<"C">>, <<"B", "k2">>),
                                     Rx("v3", <<"C">>, <<"A">>, <<"C", "k3">>)>>]

T == Tpl(tpl)

Content ==
    [cpds |-> T.cpds,
     nl   |-> [c \in Range(T.cpds) |-> IF c \in DOMAIN nl THEN nl[c] ELSE 0],
     init |-> T.init, pars |-> T.pars, der |-> Empty,
     rxns |-> [j \in DOMAIN T.rxns |-> [T.rxns[j] EXCEPT !.map = IF j \in DOMAIN maps THEN maps[j] ELSE <<>>]]]

Init ==
    /\ tpl \in Tpls
    /\ nl = Empty /\ maps = Empty /\ ci = 1 /\ ri = 1 /\ dk = Empty
    /\ stage = "nl"

PickNL ==
    /\ stage = "nl"
    /\ IF ci <= Len(T.cpds)
       THEN /\ \E n \in 1..MaxNL : nl' = nl @@ (T.cpds[ci] :> n)
            /\ ci' = ci + 1
            /\ UNCHANGED <<stage, maps>>
       ELSE /\ \A j \in DOMAIN T.rxns : NSrc(Content, Content.rxns[j]) <= MaxL
            /\ stage' = "map"
            /\ maps' = (1 :> <<>>)
            /\ UNCHANGED <<nl, ci>>
    /\ UNCHANGED <<tpl, ri, dk>>

\* an entry may be appended when the map can still become an involution (OnlyInvolutive)
CanAppend(m, e, L) ==
    ~OnlyInvolutive \/
    LET k == Len(m) + 1 IN
       /\ \A i \in DOMAIN m : m[i] # e                       \* injective
       /\ (e + 1 < k => m[e + 1] = k - 1)                    \* partner already placed: it must point back
       /\ \A i \in DOMAIN m : (m[i] = k - 1) => e = i - 1    \* somebody points here: point back

FocusOk(r, m, L) ==
    (Focus /\ (SLab(Content, r) = 0 \/ PLab(Content, r) = 0)) =>
        \/ m = [i \in 1..L |-> i - 1]
        \/ m = [i \in 1..L |-> L - i]
        \/ m = [i \in 1..L |-> 0]

PickEntry ==
    /\ stage = "map"
    /\ LET L == NSrc(Content, Content.rxns[ri]) IN
       IF Len(maps[ri]) < L
       THEN /\ \E e \in 0..(L - 1) : CanAppend(maps[ri], e, L) /\ maps' = [maps EXCEPT ![ri] = Append(@, e)]
            /\ UNCHANGED <<ri, stage, ci>>
       ELSE IF ~FocusOk(Content.rxns[ri], maps[ri], L) THEN FALSE
       ELSE IF ri < Len(T.rxns)
            THEN ri' = ri + 1 /\ maps' = maps @@ ((ri + 1) :> <<>>) /\ UNCHANGED <<stage, ci>>
            ELSE stage' = "dist" /\ ci' = 1 /\ UNCHANGED <<ri, maps>>
    /\ UNCHANGED <<tpl, nl, dk>>

NDist == 4
Salt == SumSeq([j \in 1..Len(T.rxns) |-> IF j \in DOMAIN maps THEN SumSeq(maps[j]) ELSE 0])

PickDist ==
    /\ stage = "dist"
    /\ IF ci <= Len(T.cpds)
       THEN /\ IF DistAll THEN \E k \in 1..NDist : dk' = dk @@ (T.cpds[ci] :> k)
               ELSE dk' = dk @@ (T.cpds[ci] :> ((Salt + ci) % NDist) + 1)
            /\ ci' = ci + 1 /\ UNCHANGED stage
       ELSE stage' = "done" /\ UNCHANGED <<dk, ci>>
    /\ UNCHANGED <<tpl, nl, maps, ri>>

Next == PickNL \/ PickEntry \/ PickDist
Done == stage = "done"

(***************************************************************************)
(* Isotopomer distributions with a given total                             *)
(***************************************************************************)
W3 == <<1, 2, 3, 6, 1, 1, 2, 2>>
W4 == <<5, 0, 4, 3, 0, 2, 1, 0>>
RECURSIVE BitVal(_)
BitVal(bits) == IF Len(bits) = 0 THEN 0 ELSE 2 * BitVal(SubSeq(bits, 1, Len(bits) - 1)) + bits[Len(bits)]
\* amount of isotopomer number q (0-based, binary value of its bits) of a compound with n isotopomers and pool tot
Share(k, tot, n, q) ==
    CASE k = 1 -> IF q = 0 THEN tot ELSE 0
      [] k = 2 -> IF q = n - 1 THEN tot ELSE 0
      [] OTHER ->
         LET w == IF k = 3 THEN W3 ELSE W4
             ws == SumSeq(SubSeq(w, 1, n))
             part(i) == (tot * w[i + 1]) \div ws
             given == SumSeq([i \in 1..n |-> part(i - 1)])
         IN part(q) + (IF q = k % n THEN tot - given ELSE 0)

BB == Content
Dist == [n \in IsoNames(BB) |->
           LET rec == CHOOSE x \in IsoIndex(BB) : x.n = n
           IN Share(dk[rec.c], BB.init[rec.c], Pow2(BB.nl[rec.c]), BitVal(rec.bits))]

Pool == [c \in CpdSet(BB) |-> BB.init[c]]
Flux == [j \in DOMAIN BB.rxns |-> BRate(BB, Pool, BB.rxns[j])]
FluxByName == [n \in {BB.rxns[j].name : j \in DOMAIN BB.rxns} |->
                 Flux[CHOOSE j \in DOMAIN BB.rxns : BB.rxns[j].name = n]]

Xs == <<Q!Zero, Q!R(1, 2), Q!R(2, 3), Q!One>>
Uniform(x) == [n \in PosNames(BB) |-> x]
E0 == Enrich(BB, Dist)
AllInvolutive == \A j \in DOMAIN BB.rxns : Involutive(BB, BB.rxns[j])

Scenario ==
    [tpl |-> tpl, b |-> BB, dk |-> dk, pool |-> Pool, flux |-> FluxByName,
     y |-> Dist, isody |-> LRhs(BB, Dist, "occurrence"),
     involutive |-> AllInvolutive,
     evals |-> <<[what |-> "isotopomer-derived", x |-> Q!One, e |-> E0, de |-> IsoEnrichRate(BB, Dist)]>>
               \o [k \in 1..2 |-> [what |-> "linear definition, EXT below 1", x |-> Xs[k], e |-> E0,
                                   de |-> LinRhs(BB, Pool, Flux, E0, Xs[k], "doc")]]
               \o [k \in 1..Len(Xs) |-> [what |-> "uniform enrichment equal to EXT", x |-> Xs[k], e |-> Uniform(Xs[k]),
                                         de |-> Uniform(Q!Zero)]]]

Emit == (EmitOn /\ Done) => PrintT("@J@" \o ToJson(Scenario) \o "@E@")

ThSteady   == Done => IsSteadyAt(BB, Dist) /\ \A c \in CpdSet(BB) : Pool[c] > 0
ThDist     == Done => Totals(BB, Dist) = Pool /\ \A n \in IsoNames(BB) : Dist[n] >= 0
ThLinIsIso == Done => LinRhs(BB, Pool, Flux, E0, Q!One, LinMode) = IsoEnrichRate(BB, Dist)
ThUniform  == Done => \A k \in 1..Len(Xs) : LinRhs(BB, Pool, Flux, Uniform(Xs[k]), Xs[k], LinMode) = Uniform(Q!Zero)
ThZero     == Done => LinRhs(BB, Pool, Flux, Uniform(Q!Zero), Q!Zero, LinMode) = Uniform(Q!Zero)
ThInvol    == (Done /\ AllInvolutive) =>
                 \A k \in {2, 4} : LinRhs(BB, Pool, Flux, E0, Xs[k], "pinned") = LinRhs(BB, Pool, Flux, E0, Xs[k], "doc")
\* every rational stayed in Rat's safe range
ThSafe     == Done => \A n \in PosNames(BB) : Q!IsRat(IsoEnrichRate(BB, Dist)[n]) /\ Q!IsRat(E0[n])
=============================================================================
