\* C18 procedure machine: forgetting the parameter reset, sequential: later tasks return wrong coefficients
CONSTANTS
    Mode = "seq"
    RestorePars = FALSE
    RestoreY0 = TRUE
    Cyclic = FALSE
    EarlyRestoreY0 = FALSE
INIT Init
NEXT Next
INVARIANT ResultsRight
CHECK_DEADLOCK FALSE
