\* C08 reachability of the Reuse shape: NoReuse must be VIOLATED (TLC exhibits a finished, well-formed model in which
\* a derived quantity and a reaction share one function with different argument lists); the theorems hold on the way
CONSTANTS
    MaxVars = 1
    MaxDer = 1
    MaxRxn = 1
    MaxIap = 0
    MaxIav = 0
    MaxComps = 2
    NumLits = {}
    Half = FALSE
    UnOn = {}
    BinOn = {"sub"}
    CmpOn = {}
    Chains = FALSE
    BoolOn = {}
    IteOn = FALSE
    FnOn = {}
    CallOn = FALSE
    PiOn = FALSE
    MaxDepth = 1
    MaxToks = 3
    NFormals = 2
    Schemes = {"formal"}
    Pinned = FALSE
    EmitOn = FALSE
INIT Init
NEXT Next
INVARIANT AlwaysWellFormed
INVARIANT RenameInvariant
INVARIANT BodyAgrees
INVARIANT NoReuse
CHECK_DEADLOCK FALSE
