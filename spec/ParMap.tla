------------------------------ MODULE ParMap ------------------------------
(***************************************************************************)
(* C09 -- scans equal independent runs, row-aligned, under any scheduling. *)
(*                                                                         *)
(* A scan maps the rows 1..n of a table over a model.  Objects are         *)
(* explicit so that aliasing is expressible: obj[0] is the caller's model, *)
(* obj[i] a copy made for row i.  A worker takes the next row (task queue, *)
(* input order), applies the row to the object it works on (columns that   *)
(* are variables set initial values, the others parameters), runs (the     *)
(* result captures the trajectory, a REFERENCE to the object and the       *)
(* values of the plain parameters) and finishes; rows finish in any order; *)
(* Collect returns the results in input order; reading a result            *)
(* (Evaluate) is lazy: it goes through the reference and re-applies only   *)
(* the captured plain parameters.  One row may fail (its result is a NaN   *)
(* placeholder).                                                           *)
(*                                                                         *)
(* Model content is abstract: k, kin (plain parameters), x0 (initial       *)
(* value) and, by variant, an effective inflow                             *)
(*   plain   : kin                                                         *)
(*   ia      : kin + q, q = 2*x0 unless a row names q itself (a parameter  *)
(*             defined by an initial assignment over the initial value;    *)
(*             NOT a plain parameter while the assignment is in force; a   *)
(*             scanned value replaces the assignment by a plain value)     *)
(*   derived : 2*kin        (a derived parameter)                          *)
(* Rows are identified by position: the table is a sequence of (label,     *)
(* values) whose labels need not be distinct (two batches concatenated     *)
(* without re-indexing, repeated condition names); row i of the output is  *)
(* the independent run of row i of the input, under row i's label.  The    *)
(* wrong instance KeyedByLabel (results looked up by label: every row with *)
(* a repeated label reports the last such row) is refuted by TLC.          *)
(* The scan may be given base initial values y0: row values take           *)
(* precedence over y0, y0 over the model's own initial values ("a fresh    *)
(* copy of the model with exactly that row's parameter and initial         *)
(* values": Base = Original with y0, Expected(i) = WithRow(Base, i)).      *)
(* A trajectory is determined by (x0, k, effective inflow) at Run time,    *)
(* fluxes by (k, effective inflow) at Evaluate time.                       *)
(*                                                                         *)
(* Properties: RowIndependent (every evaluated result equals that of a     *)
(* fresh copy of the original model with exactly that row applied),        *)
(* Aligned (results in input order under the input labels), FailedIsNaN,   *)
(* Bounded (never more than w rows in progress).                           *)
(*                                                                         *)
(* SharedInSeq = TRUE is the shape of the implementation at the pinned     *)
(* commit (sequential mode mutates the caller's model for every row): TLC  *)
(* exhibits the aliasing counterexample; the code is judged against the    *)
(* property (SharedInSeq = FALSE), whatever the interleaving.              *)
(*                                                                         *)
(* Configurations are built by setup actions (one dimension per step) so   *)
(* that -simulate samples them; with Timed = TRUE every row gets a         *)
(* duration and a discrete clock decides which completion orders the w     *)
(* workers can produce; Emit prints configuration, schedule and the        *)
(* expected value table of every row.                                      *)
(***************************************************************************)
EXTENDS Integers, Sequences, FiniteSets, TLC, Json

CONSTANTS
    Ns,             \* admissible numbers of rows
    Ws,             \* admissible numbers of workers
    Modes,          \* subset of {"seq", "par"}
    Variants,       \* subset of {"plain", "ia", "derived"}
    ColSets,        \* admissible column sets: sets over "k", "i" (= k_in), "x" (= initial value of x) and
                    \* "q" (the assignment-defined parameter itself; only with variant "ia")
    Kinds,          \* scan entry points (only carried into the emitted configuration)
    FailModes,      \* ways a row may fail (carried into the configuration)
    LabelSchemes,   \* how the rows of the table are LABELLED: "range", "shuffled", "strings" (distinct labels) or
                    \* "repeated" (rows 1, 3, 5 share one label, rows 2, 4 another -- with differing values)
    KeyedByLabel,   \* TRUE: implementation-shaped wrong instance that looks results up by label (must be refuted)
    NameSchemes,    \* how the model's parameters / variable are NAMED in the rendering (carried into the
                    \* configuration only: the specification is silent about names, every scheme must behave alike)
    Y0s,            \* admissible y0= arguments: 0 = none, v > 0 = {x: v} (base initial values given to the scan)
    Y0Again,        \* TRUE: implementation-shaped wrong instance that applies y0 once more AFTER the row
    MaxDur,         \* durations 1..MaxDur (Timed)
    SharedInSeq,    \* TRUE: implementation-shaped sequential mode
    Timed,          \* TRUE: durations + clock; FALSE: rows finish in any order
    Fifo,           \* TRUE: rows are taken in input order (task queue); FALSE: any order (trace validation)
    EmitOn

VARIABLES
    cfg,        \* [kind, n, w, mode, variant, cols, fail, failmode]  (0 / "" while unset)
    phase,      \* "setup" | "run" | "collected" | "done"
    dur,        \* [1..n -> 1..MaxDur]
    obj,        \* [0..n -> content]
    task,       \* [1..n -> [st, w, ref, pars, traj, rem]]
    out,        \* sequence of row indices in the order returned
    eval,       \* [1..n -> tagged value]
    clock,
    forder,     \* rows in finish order
    ftick,      \* [1..n -> clock at finish]
    eorder      \* rows in the order their results were read

vars == <<cfg, phase, dur, obj, task, out, eval, clock, forder, ftick, eorder>>

Unassigned == 0 - 1         \* q still follows its initial assignment
Original == [k |-> 1, kin |-> 2, x0 |-> 1, q |-> Unassigned]
HasCol(c) == c \in cfg.cols
\* distinct per row and deliberately not monotone in the row number (sorting the rows must be visible)
Perm == <<3, 5, 2, 6, 4>>
\* (row 2 gives q exactly the value its assignment has on the caller's model, 2 * x0: the row still turns q into that
\*  plain number -- with another x in the same row the assignment would give something else)
RowVal(i, c) == IF c = "k" THEN Perm[i] ELSE IF c = "i" THEN Perm[i] + 1 ELSE IF c = "x" THEN Perm[i] + 2
                ELSE IF i = 2 THEN 2 * Original.x0 ELSE Perm[i] + 5

KinEff(variant, kin, x0, q) ==
    IF variant = "ia" THEN kin + (IF q = Unassigned THEN 2 * x0 ELSE q)
    ELSE IF variant = "derived" THEN 2 * kin ELSE kin

\* apply row i: columns that are variables set initial values, the others parameters
WithRow(c, i) ==
    [k   |-> IF HasCol("k") THEN RowVal(i, "k") ELSE c.k,
     kin |-> IF HasCol("i") THEN RowVal(i, "i") ELSE c.kin,
     x0  |-> IF HasCol("x") THEN RowVal(i, "x") ELSE c.x0,
     q   |-> IF HasCol("q") THEN RowVal(i, "q") ELSE c.q]

\* q is among the plain parameters exactly when a value has replaced its assignment
PlainPars(c) == [k |-> c.k, kin |-> c.kin, q |-> c.q]
WithPlain(c, p) == [c EXCEPT !.k = p.k, !.kin = p.kin, !.q = IF p.q = Unassigned THEN @ ELSE p.q]
Traj(c) == [x0 |-> c.x0, k |-> c.k, kineff |-> KinEff(cfg.variant, c.kin, c.x0, c.q)]
Flux(c) == [k |-> c.k, kineff |-> KinEff(cfg.variant, c.kin, c.x0, c.q)]

\* the model the rows start from: y0 (if given) over the model's own initial values
Base == IF cfg.y0 > 0 THEN [Original EXCEPT !.x0 = cfg.y0] ELSE Original

\* what a fresh copy of the model (with y0) with exactly row i applied gives
Expected(i) ==
    IF i = cfg.fail THEN [t |-> "nan"]
    ELSE LET c == WithRow(Base, i) IN [t |-> "val", traj |-> Traj(c), fl |-> Flux(c)]

NoTask == [st |-> "todo", w |-> 0, ref |-> 0, pars |-> PlainPars(Original), traj |-> Traj(Original), rem |-> 0]
Unset == [kind |-> "", n |-> 0, w |-> 0, mode |-> "", variant |-> "", cols |-> {}, fail |-> 0 - 1, failmode |-> "", y0 |-> 0 - 1, names |-> "", labels |-> ""]
Rows == 1..cfg.n

Init ==
    /\ cfg = Unset /\ phase = "setup"
    /\ dur = <<>> /\ obj = <<>> /\ task = <<>> /\ out = <<>> /\ eval = <<>>
    /\ clock = 0 /\ forder = <<>> /\ ftick = <<>> /\ eorder = <<>>

(***************************************************************************)
(* setup: one dimension per step                                           *)
(***************************************************************************)
IsMc(kind) == kind \in {"mc.steady_state", "mc.time_course", "mc.scan_steady_state"}
IsSteady(kind) == kind \in {"steady_state", "mc.steady_state", "mc.scan_steady_state"}

Setup ==
    /\ phase = "setup"
    /\ UNCHANGED <<obj, task, out, eval, clock, forder, ftick, eorder>>
    /\ \/ cfg.kind = "" /\ \E v \in Kinds : cfg' = [cfg EXCEPT !.kind = v] /\ UNCHANGED <<phase, dur>>
       \/ cfg.kind # "" /\ cfg.mode = "" /\ \E v \in Modes :
                (IsMc(cfg.kind) => v = "par") /\ cfg' = [cfg EXCEPT !.mode = v] /\ UNCHANGED <<phase, dur>>
       \/ cfg.mode # "" /\ cfg.w = 0 /\ \E v \in Ws :
                (cfg.mode = "seq" => v = 1) /\ cfg' = [cfg EXCEPT !.w = v] /\ UNCHANGED <<phase, dur>>
       \/ cfg.w # 0 /\ cfg.n = 0 /\ \E v \in Ns : cfg' = [cfg EXCEPT !.n = v] /\ UNCHANGED <<phase, dur>>
       \/ cfg.n # 0 /\ cfg.variant = "" /\ \E v \in Variants : cfg' = [cfg EXCEPT !.variant = v] /\ UNCHANGED <<phase, dur>>
       \/ cfg.variant # "" /\ cfg.cols = {} /\ \E v \in ColSets :
                ("q" \in v => cfg.variant = "ia") /\ cfg' = [cfg EXCEPT !.cols = v] /\ UNCHANGED <<phase, dur>>
       \/ cfg.cols # {} /\ cfg.y0 < 0 /\ \E v \in Y0s : cfg' = [cfg EXCEPT !.y0 = v] /\ UNCHANGED <<phase, dur>>
       \/ cfg.y0 >= 0 /\ cfg.names = "" /\ \E v \in NameSchemes : cfg' = [cfg EXCEPT !.names = v] /\ UNCHANGED <<phase, dur>>
       \/ cfg.names # "" /\ cfg.labels = "" /\ \E v \in LabelSchemes : cfg' = [cfg EXCEPT !.labels = v] /\ UNCHANGED <<phase, dur>>
       \/ cfg.labels # "" /\ cfg.fail = 0 - 1 /\ \E v \in {0, 0 - 2} : cfg' = [cfg EXCEPT !.fail = v] /\ UNCHANGED <<phase, dur>>
       \/ cfg.fail = 0 - 2 /\ \E v \in 1..cfg.n : cfg' = [cfg EXCEPT !.fail = v] /\ UNCHANGED <<phase, dur>>
       \/ cfg.fail > 0 /\ cfg.failmode = "" /\ \E v \in FailModes :
                (v = "nosteady" => IsSteady(cfg.kind))
                /\ (v = "latestep" => cfg.kind \in {"protocol", "protocol_time_course"})   \* fails in a LATER protocol step
                /\ cfg' = [cfg EXCEPT !.failmode = v] /\ UNCHANGED <<phase, dur>>
       \/ cfg.fail >= 0 /\ (cfg.fail > 0 => cfg.failmode # "") /\ Timed /\ Len(dur) < cfg.n
                /\ \E d \in 1..MaxDur : dur' = Append(dur, d) /\ UNCHANGED <<cfg, phase>>
       \/ cfg.fail >= 0 /\ (cfg.fail > 0 => cfg.failmode # "") /\ (Timed => Len(dur) = cfg.n)
                /\ phase' = "run" /\ UNCHANGED <<cfg, dur>>

Start ==
    /\ phase = "run" /\ obj = <<>>
    /\ obj' = [i \in 0..cfg.n |-> Base]          \* the scan puts y0 into the caller's model first
    /\ task' = [i \in Rows |-> NoTask]
    /\ eval' = [i \in Rows |-> [t |-> "none"]]
    /\ ftick' = [i \in Rows |-> 0]
    /\ UNCHANGED <<cfg, phase, dur, out, clock, forder, eorder>>

(***************************************************************************)
(* the scan                                                                *)
(***************************************************************************)
Started == phase = "run" /\ obj # <<>>
Busy(w) == \E i \in Rows : task[i].w = w /\ task[i].st \in {"taken", "applied", "running"}
InProgress == {i \in Rows : task[i].st \in {"taken", "applied", "running"}}
CanTake(w, i) ==
    /\ w \in 1..cfg.w /\ ~Busy(w)
    /\ task[i].st = "todo"
    /\ Fifo => \A j \in Rows : j < i => task[j].st # "todo"

\* the object row i works on: the caller's model (implementation-shaped sequential mode) or a copy of it
Take(w, i) ==
    /\ Started /\ CanTake(w, i)
    /\ LET shared == cfg.mode = "seq" /\ SharedInSeq
           ref == IF shared THEN 0 ELSE i
       IN /\ task' = [task EXCEPT ![i].st = "taken", ![i].w = w, ![i].ref = ref]
          /\ obj' = IF shared THEN obj ELSE [obj EXCEPT ![i] = obj[0]]
    /\ UNCHANGED <<cfg, phase, dur, out, eval, clock, forder, ftick, eorder>>

ApplyRow(i) ==
    /\ Started /\ task[i].st = "taken"
    /\ obj' = [obj EXCEPT ![task[i].ref] =
                    IF Y0Again /\ cfg.y0 > 0 THEN [WithRow(@, i) EXCEPT !.x0 = cfg.y0] ELSE WithRow(@, i)]
    /\ task' = [task EXCEPT ![i].st = "applied"]
    /\ UNCHANGED <<cfg, phase, dur, out, eval, clock, forder, ftick, eorder>>

Run(i) ==
    /\ Started /\ task[i].st = "applied"
    /\ task' = [task EXCEPT ![i].st = "running",
                            ![i].pars = PlainPars(obj[task[i].ref]),
                            ![i].traj = Traj(obj[task[i].ref]),
                            ![i].rem = IF Timed THEN dur[i] ELSE 0]
    /\ UNCHANGED <<cfg, phase, dur, obj, out, eval, clock, forder, ftick, eorder>>

Finish(i) ==
    /\ Started /\ task[i].st = "running" /\ task[i].rem = 0
    /\ task' = [task EXCEPT ![i].st = IF i = cfg.fail THEN "failed" ELSE "done"]
    /\ forder' = Append(forder, i)
    /\ ftick' = [ftick EXCEPT ![i] = clock]
    /\ UNCHANGED <<cfg, phase, dur, obj, out, eval, clock, eorder>>

\* time passes only when nothing else can happen (workers take rows eagerly)
Tick ==
    /\ Started /\ Timed
    /\ InProgress # {}
    /\ \A i \in InProgress : task[i].st = "running" /\ task[i].rem > 0
    /\ ~\E w \in 1..cfg.w, i \in Rows : CanTake(w, i)
    /\ task' = [i \in Rows |-> IF i \in InProgress THEN [task[i] EXCEPT !.rem = @ - 1] ELSE task[i]]
    /\ clock' = clock + 1
    /\ UNCHANGED <<cfg, phase, dur, obj, out, eval, forder, ftick, eorder>>

Collect ==
    /\ Started /\ \A i \in Rows : task[i].st \in {"done", "failed"}
    /\ out' = [i \in Rows |-> i]
    /\ phase' = "collected"
    /\ UNCHANGED <<cfg, dur, obj, task, eval, clock, forder, ftick, eorder>>

\* lazy read of result i: through the reference, re-applying the captured plain parameters
\* The table is a sequence of (label, values); labels are only carried and need not be distinct: rows are
\* identified by POSITION.  Label(i) is abstract: equal numbers = equal labels.
Label(i) == IF cfg.labels = "repeated" THEN ((i - 1) % 2) + 1 ELSE i
\* the row whose result a lookup BY LABEL finds for row i: the last row carrying that label
LastWith(i) == CHOOSE j \in Rows : Label(j) = Label(i) /\ \A m \in Rows : Label(m) = Label(i) => m <= j
Src(i) == IF KeyedByLabel THEN LastWith(i) ELSE i

Evaluate(i) ==
    /\ phase = "collected" /\ eval[i].t = "none"
    /\ LET ref == task[Src(i)].ref
           now == WithPlain(obj[ref], task[Src(i)].pars)
       IN /\ obj' = [obj EXCEPT ![ref] = now]
          /\ eval' = [eval EXCEPT ![i] = IF task[Src(i)].st = "failed" THEN [t |-> "nan"]
                                          ELSE [t |-> "val", traj |-> task[Src(i)].traj, fl |-> Flux(now)]]
    /\ eorder' = Append(eorder, i)
    /\ UNCHANGED <<cfg, phase, dur, task, out, clock, forder, ftick>>

Finished ==
    /\ phase = "collected" /\ \A i \in Rows : eval[i].t # "none"
    /\ phase' = "done"
    /\ UNCHANGED <<cfg, dur, obj, task, out, eval, clock, forder, ftick, eorder>>

Stutter == phase = "done" /\ ~EmitOn /\ UNCHANGED vars

Next ==
    \/ Setup \/ Start \/ Tick \/ Collect \/ Finished \/ Stutter
    \/ \E i \in 1..cfg.n : ApplyRow(i) \/ Run(i) \/ Finish(i) \/ Evaluate(i)
                           \/ \E w \in 1..cfg.w : Take(w, i)

-----------------------------------------------------------------------------
RowIndependent == phase \in {"collected", "done"} => \A i \in Rows : eval[i].t # "none" => eval[i] = Expected(i)
Aligned == phase \in {"collected", "done"} => out = [i \in Rows |-> i]
FailedIsNaN == phase = "done" => \A i \in Rows : (eval[i].t = "nan") <=> (i = cfg.fail)
Bounded == Started => Cardinality(InProgress) <= cfg.w /\ (cfg.mode = "seq" => Cardinality(InProgress) <= 1)
CallerUntouched == (Started /\ ~(cfg.mode = "seq" /\ SharedInSeq)) => obj[0] = Base

Emit == (EmitOn /\ phase = "done") =>
    PrintT("@J@" \o ToJson([cfg |-> cfg, dur |-> dur, forder |-> forder, ftick |-> ftick, eorder |-> eorder,
                            labels |-> [i \in Rows |-> Label(i)],
                            worker |-> [i \in Rows |-> task[i].w],
                            vals |-> [i \in Rows |-> [k |-> RowVal(i, "k"), i |-> RowVal(i, "i"), x |-> RowVal(i, "x"), q |-> RowVal(i, "q")]],
                            expect |-> [i \in Rows |-> Expected(i)]]) \o "@E@")
=============================================================================
