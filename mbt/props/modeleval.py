"""Shared by C01 and C13: model-shape family from spec/ModelEval.tla, replayed into the real Model."""

from __future__ import annotations

import json
import random

from ..core import Ctx, Report, pmap
from ..modelkit import build_model, close, cmp_table, cmp_vector, norm_content
from ..tlc import MachineryError, fn_to_dict

SIM_CFG = """\\* seeded random members of the rich family (-simulate)
CONSTANTS
    MaxVars = {maxv}
    MaxDer = {maxd}
    MaxRxn = {maxd}
    MaxIap = {maxia}
    MaxIav = 1
    MaxSur = 1
    MaxRo = 1
    MaxComps = {maxc}
    Fns = {{"one", "two", "id", "neg", "dbl", "inc", "step", "dsum", "add", "sub", "mul", "sel", "cut", "swp", "pos", "mad"}}
    UseData = TRUE
    ForwardRefs = {fwd}
    WithJac = FALSE
    EmitOn = TRUE
INIT Init
NEXT Next
INVARIANT Emit
INVARIANT StaticIsReachability
INVARIANT FrozenIsConstant
INVARIANT InitConsistent
INVARIANT OrderInvariant
INVARIANT UntouchedZero
CHECK_DEADLOCK FALSE
"""


def fnlib_crosscheck(ctx: Ctx, rep: Report) -> None:
    """Spec validation: FnLib.tla and mbt/fnlib.py must agree on a grid (else machinery failure)."""
    from .. import fnlib

    res = ctx.tlc("FnLibCheck.tla", "FnLibCheck.cfg", workers=1)
    rep.add_tlc(res, "spec validation: FnLib table printed on a grid")
    rows = [r for p in res.payloads for r in p]
    if len(rows) < 100:
        raise MachineryError("FnLibCheck produced too few rows")
    for r in rows:
        f = fnlib.FNS[r["fn"]]
        args = r["args"]
        if r["fn"] == "dsum":
            import pandas as pd

            got = f(pd.Series([float(args[0]) - 1.0, 1.0]))
        else:
            got = f(*[float(a) for a in args])
        if not close(got, r["v"]):
            raise MachineryError(f"FnLib.tla and fnlib.py disagree on {r}: python says {got}")
    rep.notes["fnlib_crosscheck_points"] = len(rows)


def generate(ctx: Ctx, rep: Report) -> list[dict]:
    scns = []
    res = ctx.tlc("ModelEval.tla", "ModelEval_exh.cfg")
    rep.add_tlc(res, "ModelEval exhaustive small family (<= 2 components, constant/unary functions) + 5 semantic theorems")
    scns += res.payloads
    n_exh = len(res.payloads)
    # NB: in -simulate mode TLC evaluates the invariants on every generated successor, so each trace also
    # emits the sibling models of its last step (same calls, other stoichiometries)
    workers = 8
    per_worker = 60 if ctx.quick else 900
    nsim = per_worker * workers * 2
    parts = [(4, "TRUE", 3, 3, 2), (5, "FALSE", 2, 2, 1)] if ctx.quick else [(4, "TRUE", 3, 3, 2), (6, "FALSE", 3, 3, 2)]
    for part, (maxc, fwd, maxv, maxd, maxia) in enumerate(parts):
        cfg = ctx.write_cfg(f"ModelEval_sim{maxc}.cfg",
                            SIM_CFG.format(maxc=maxc, fwd=fwd, maxv=maxv, maxd=maxd, maxia=maxia))
        res = ctx.tlc("ModelEval.tla", str(cfg), simulate=f"num={per_worker}", depth=40, seed=ctx.seed + part,
                      workers=workers)
        rep.add_tlc(res, f"ModelEval -simulate rich family (<= {maxc} components, all functions, data, surrogate)")
        scns += res.payloads
    if n_exh < 1000 or len(scns) - n_exh < nsim // 3:
        raise MachineryError(f"too few scenarios emitted: exhaustive {n_exh}, simulated {len(scns) - n_exh}")
    out = []
    seen = set()
    uniq = []
    for p in scns:
        key = json.dumps(p["c"], sort_keys=True)
        if key not in seen:
            seen.add(key)
            uniq.append(p)
    rep.notes["models_emitted_twice"] = len(scns) - len(uniq)
    scns = uniq
    for j, p in enumerate(scns):
        p["c"] = norm_content(p["c"])
        p["idx"] = j
        p["seed"] = ctx.seed
        out.append(p)
    rep.notes["models_exhaustive"] = n_exh
    rep.notes["models_simulated"] = len(scns) - n_exh
    return out


def _frame(c, pts):
    import pandas as pd

    rows = {float(p["t"]): {v: float(fn_to_dict(p["y"])[v]) for v in c["vars"]} for p in pts}
    return pd.DataFrame(rows).T[list(c["vars"])]


FLAGS = ["include_time", "include_variables", "include_parameters", "include_derived_parameters",
         "include_derived_variables", "include_reactions", "include_surrogate_variables", "include_surrogate_fluxes",
         "include_readouts"]


def check_flags(m, scn, order, y, t, rnd) -> dict | None:
    """get_args under a random combination of include_* flags returns exactly the selected groups (names as
    partitioned by the specification, each group in declaration order) with the same values."""
    c = scn["c"]
    decl = [o.split(":", 1)[1] for o in order]
    decl_sur_outs = [o for n in decl if n in c["sur"] for o in c["sur"][n]["outs"]]
    groups = {
        "include_time": ["time"],
        "include_variables": list(c["vars"]),
        "include_parameters": [n for n in decl if n in c["pars"]],
        "include_derived_variables": [n for n in decl if n in set(scn["dynder"])],
        "include_derived_parameters": [n for n in decl if n in set(scn["static"])],
        "include_reactions": [n for n in decl if n in c["rxn"]],
        "include_surrogate_variables": [o for o in decl_sur_outs if o in set(scn["survars"])],
        "include_surrogate_fluxes": [o for o in decl_sur_outs if o in set(scn["surflux"])],
        "include_readouts": [n for n in decl if n in c["ro"]],
    }
    full = m.get_args(variables=y, time=t, include_readouts=True).to_dict()
    flags = {f: rnd.random() < 0.5 for f in FLAGS}
    got = m.get_args(variables=y, time=t, **flags)
    expected = [n for f in FLAGS if flags[f] for n in groups[f]]
    if sorted(got.index) != sorted(expected):
        return {"what": "get_args include_* flags: names", "flags": flags, "expected": sorted(expected),
                "observed": sorted(got.index)}
    for n in expected:
        if not close(full[n], got[n]):
            return {"what": "get_args include_* flags: values", "flags": flags, "name": n}
    return None


def observe_c01(scn: dict) -> dict | None:
    """All C01 entry points at every predicted point. Returns the first disagreement or None."""
    import numpy as np
    import pandas as pd

    c = scn["c"]
    rnd = random.Random(f"{scn['seed']}/{scn['idx']}")
    m, order = build_model(c, rnd)
    pts = scn["pts"]
    for p in pts:
        y = {v: float(fn_to_dict(p["y"])[v]) for v in c["vars"]}
        t = float(p["t"])
        e_args = fn_to_dict(p["args"])
        e_flux = fn_to_dict(p["fluxes"])
        e_rhs = list(p["rhs"])
        modes = [("explicit", dict(variables=y, time=t))]
        if p["default"]:
            modes.append(("default", {}))
        elif all(close(float(fn_to_dict(scn["init"])[v]), y[v]) for v in c["vars"]):
            modes.append(("time only", dict(time=t)))   # the state omitted, the time given
        for mode, kw in modes:
            tag = f"{mode}@t={t}"
            a = m.get_args(**kw)
            bad = cmp_table(e_args, a.to_dict(), f"get_args {tag}")
            if bad:
                return {**bad, "order": order, "point": p}
            f = m.get_fluxes(**kw)
            bad = cmp_table(e_flux, f.to_dict(), f"get_fluxes {tag}")
            if bad:
                return {**bad, "order": order, "point": p}
            r = m.get_right_hand_side(**kw)
            if list(r.index) != list(c["vars"]):
                return {"what": f"get_right_hand_side {tag} index", "expected": c["vars"], "observed": list(r.index)}
            bad = cmp_vector(e_rhs, r.to_numpy(), f"get_right_hand_side {tag}")
            if bad:
                return {**bad, "order": order, "point": p}
            st = m.get_stoichiometries(**kw)
            e_st = {v: fn_to_dict(row) for v, row in fn_to_dict(p["stoich"]).items()}
            for v in st.index:
                for fl in st.columns:
                    exp = e_st.get(v, {}).get(fl, 0)
                    if not close(exp, st.loc[v, fl]):
                        return {"what": f"get_stoichiometries {tag}", "variable": v, "flux": fl, "expected": exp,
                                "observed": float(st.loc[v, fl]), "order": order, "point": p}
            for v, row in e_st.items():
                for fl, exp in row.items():
                    if (v not in st.index or fl not in st.columns) and exp != 0:
                        return {"what": f"get_stoichiometries {tag}", "variable": v, "flux": fl, "expected": exp,
                                "observed": "absent", "order": order}
        # readouts (evaluated on demand) and the name groups selected by the include_* flags
        e_ro = fn_to_dict(p.get("ro", {}))
        full = m.get_args(variables=y, time=t, include_readouts=True)
        bad = cmp_table({**e_args, **e_ro}, full.to_dict(), f"get_args(include_readouts) @t={t}")
        if bad:
            return {**bad, "order": order, "point": p}
        bad = check_flags(m, scn, order, y, t, rnd)
        if bad:
            return {**bad, "order": order, "point": p}
        # positional form handed to integrators
        vec = m(t, [y[v] for v in c["vars"]])
        bad = cmp_vector(e_rhs, vec, f"__call__ @t={t}")
        if bad:
            return {**bad, "order": order, "point": p}
    # time-course forms on a two-row frame (the two non-default points)
    tc = [p for p in pts if not p["default"]]
    if len(tc) >= 2:
        df = _frame(c, tc)
        # the state table is addressed by column NAME: the same frame with its columns reversed is the same input
        dfr = df[list(reversed(list(df.columns)))]
        a1, a2 = m.get_args_time_course(df), m.get_args_time_course(dfr)
        if list(a1.columns) != list(a2.columns) or not np.allclose(a1.to_numpy(), a2[list(a1.columns)].to_numpy(), rtol=1e-12, atol=0):
            return {"what": "get_args_time_course depends on the column order of the state table", "order": order}
        df = dfr if scn["idx"] % 2 else df
        atc = m.get_args_time_course(df)
        ftc = m.get_fluxes_time_course(df)
        full = m.get_args_time_course(df)
        rtc = m.get_right_hand_side_time_course(full)
        for p in tc:
            t = float(p["t"])
            e_args = {k: v for k, v in fn_to_dict(p["args"]).items() if k != "time"}
            bad = cmp_table(e_args, atc.loc[t].to_dict(), f"get_args_time_course row t={t}")
            if bad:
                return {**bad, "order": order, "point": p}
            bad = cmp_table(fn_to_dict(p["fluxes"]), ftc.loc[t].to_dict(), f"get_fluxes_time_course row t={t}")
            if bad:
                return {**bad, "order": order, "point": p}
            if list(rtc.columns) != list(c["vars"]):
                return {"what": "get_right_hand_side_time_course columns", "expected": c["vars"],
                        "observed": list(rtc.columns)}
            bad = cmp_vector(list(p["rhs"]), rtc.loc[t].to_numpy(), f"get_right_hand_side_time_course row t={t}")
            if bad:
                return {**bad, "order": order, "point": p}
        # a row is a state: two rows may carry the SAME time stamp (one row out per row in, in order).  The second
        # row is the other state when nothing in the model reads the time, else the same state again.
        import pandas as pd

        second = tc[0] if _reads_time(c) else tc[1]
        t0 = float(tc[0]["t"])
        dup = pd.DataFrame([{v: float(fn_to_dict(q["y"])[v]) for v in c["vars"]} for q in (tc[0], second)],
                           index=[t0, t0])[list(c["vars"])]
        atc2 = m.get_args_time_course(dup)
        ftc2 = m.get_fluxes_time_course(dup)
        rtc2 = m.get_right_hand_side_time_course(atc2)
        for form, tab in (("get_args_time_course", atc2), ("get_fluxes_time_course", ftc2),
                          ("get_right_hand_side_time_course", rtc2)):
            if len(tab) != 2 or [float(x) for x in tab.index] != [t0, t0]:
                return {"what": f"{form}: a table with two rows at the same time stamp does not come back with two rows",
                        "rows_in": 2, "index_out": [float(x) for x in tab.index], "order": order}
        for j, q in enumerate((tc[0], second)):
            e_args = {k: v for k, v in fn_to_dict(q["args"]).items() if k != "time"}
            bad = cmp_table(e_args, atc2.iloc[j].to_dict(), f"get_args_time_course row {j} of a repeated time stamp") \
                or cmp_table(fn_to_dict(q["fluxes"]), ftc2.iloc[j].to_dict(), f"get_fluxes_time_course row {j} of a repeated time stamp") \
                or cmp_vector(list(q["rhs"]), rtc2.iloc[j].to_numpy(), f"get_right_hand_side_time_course row {j} of a repeated time stamp")
            if bad:
                return {**bad, "order": order, "point": q}
    return None


def _reads_time(c: dict) -> bool:
    calls = [d["args"] for d in c["der"].values()] + [d["args"] for d in c.get("ro", {}).values()]
    for r in c["rxn"].values():
        calls.append(r["args"])
        calls += [co["args"] for co in r["st"].values() if co["k"] == "calc"]
    for sr in c.get("sur", {}).values():
        calls.append(sr["args"])
        calls += [co["args"] for row in sr["st"].values() for co in row.values() if co["k"] == "calc"]
    calls += [v["args"] for v in list(c["init"].values()) + list(c["pars"].values()) if v["k"] == "ia"]
    return any("time" in a for a in calls)


def observe_c13(scn: dict) -> dict | None:
    from mxlpy import Simulator

    c = scn["c"]
    rnd = random.Random(f"{scn['seed']}/{scn['idx']}")
    m, order = build_model(c, rnd)
    e_init = fn_to_dict(scn["init"])
    bad = cmp_table(e_init, dict(m.get_initial_conditions()), "get_initial_conditions")
    if bad:
        return {**bad, "order": order}
    if list(m.get_initial_conditions()) != list(c["vars"]):
        return {"what": "get_initial_conditions order", "expected": c["vars"], "observed": list(m.get_initial_conditions())}
    bad = cmp_table(fn_to_dict(scn["parvals"]), dict(m.get_parameter_values()), "get_parameter_values")
    if bad:
        return {**bad, "order": order}
    if sorted(m.get_derived_parameter_names()) != sorted(scn["static"]):
        return {"what": "get_derived_parameter_names", "expected": sorted(scn["static"]),
                "observed": sorted(m.get_derived_parameter_names()), "order": order}
    if sorted(m.get_derived_variable_names()) != sorted(scn["dynder"]):
        return {"what": "get_derived_variable_names", "expected": sorted(scn["dynder"]),
                "observed": sorted(m.get_derived_variable_names()), "order": order}
    # frozen versus recomputed: the whole table at states different from the initial one and t != 0
    for p in scn["pts"]:
        y = {v: float(fn_to_dict(p["y"])[v]) for v in c["vars"]}
        a = m.get_args(variables=y, time=float(p["t"]))
        bad = cmp_table(fn_to_dict(p["args"]), a.to_dict(), f"get_args @t={p['t']}")
        if bad:
            return {**bad, "order": order, "point": p}
        # computed coefficients are recomputed from the state supplied: stoichiometries and derivatives
        st = m.get_stoichiometries(variables=y, time=float(p["t"]))
        e_st = {v: fn_to_dict(row) for v, row in fn_to_dict(p["stoich"]).items()}
        for v in st.index:
            for fl in st.columns:
                exp = e_st.get(v, {}).get(fl, 0)
                if not close(exp, st.loc[v, fl]):
                    return {"what": f"get_stoichiometries @t={p['t']}", "variable": v, "flux": fl, "expected": exp,
                            "observed": float(st.loc[v, fl]), "order": order, "point": p}
        bad = cmp_vector(list(p["rhs"]), m.get_right_hand_side(variables=y, time=float(p["t"])).to_numpy(),
                         f"get_right_hand_side @t={p['t']}")
        if bad:
            return {**bad, "order": order, "point": p}
    # a query in between must not change what simulations start from
    y0 = Simulator(m).y0
    bad = cmp_table(e_init, dict(y0), "Simulator(model).y0")
    if bad:
        return {**bad, "order": order}
    return None


def nontrivial(scn: dict) -> bool:
    c = scn["c"]
    comps = list(c["der"].values()) + list(c["rxn"].values()) + list(c["sur"].values())
    names = set(c["der"]) | set(c["rxn"]) | {"s1", "s2", "pa", "pb", "xa"}
    return any(set(x["args"]) & names for x in comps)


def run_family(ctx: Ctx, prop: str, observer, rule: str) -> int:
    rep = Report(ctx)
    rep.rule = rule
    rep.assumptions = ["functions come from the integer library FnLib (cross-checked against its Python twin)",
                       "declaration order of non-variable components is shuffled by the harness (seeded): the "
                       "specification's meaning does not depend on it"]
    fnlib_crosscheck(ctx, rep)
    scns = generate(ctx, rep)
    ok = [s for s in scns if s["kinds"] == ["ok"]]
    rep.notes["models_well_formed"] = len(ok)
    rep.notes["models_rejected_by_contract(circular)"] = len(scns) - len(ok)
    if len(ok) < len(scns) // 10:
        raise MachineryError("family is almost entirely ill-formed")
    global _OBS
    _OBS = observer
    # binding self-test: a tampered prediction must be reported as a disagreement (else the replayer is blind)
    import copy

    tampered = 0
    for s in ok[:: max(1, len(ok) // 12)][:12]:
        t = copy.deepcopy(s)
        if prop == "C01":
            if not t["pts"][1]["rhs"]:
                continue
            t["pts"][1]["rhs"][0] += 1
        else:
            k = next(iter(fn_to_dict(t["init"])), None)
            if k is None:
                continue
            t["init"] = {**fn_to_dict(t["init"]), k: fn_to_dict(t["init"])[k] + 1}
        tampered += 1
        if _wrap(t) is None:
            raise MachineryError("binding self-test failed: a tampered prediction was not reported by the replayer")
    rep.notes["tampered_predictions_rejected"] = tampered
    bads = pmap(_wrap, ok, chunk=64)
    for s, bad in zip(ok, bads):
        rep.replayed += 1
        rep.evaluations += 1
        if nontrivial(s):
            rep.distinct.add(json.dumps(s["c"], sort_keys=True))
        if bad is not None:
            rep.mismatch({"c": s["c"], "idx": s["idx"], "seed": s["seed"], "kinds": s["kinds"], "init": s["init"],
                          "parvals": s["parvals"], "static": s["static"], "dynder": s["dynder"], "pts": s["pts"]},
                         bad, None)
    for s in ok[:: max(1, len(ok) // 3)][:3]:
        rep.sample({"content": s["c"], "first_point": s["pts"][1]})
    # code -> spec: shipped example models and repository test models judged by the specification
    from . import model_oracle

    model_oracle.run(ctx, rep, prop, extra=model_oracle.fractional_variants(ok, 60 if ctx.quick else 400))
    return rep.finish()


_OBS = None


def _wrap(scn):
    try:
        return _OBS(scn)
    except Exception as e:  # noqa: BLE001
        import traceback

        return {"what": "exception", "exc": type(e).__name__, "message": str(e)[:300],
                "trace": traceback.format_exc()[-600:]}


def replay_one(doc: dict, observer, prop: str) -> int:
    scn = doc["scenario"]
    scn["c"] = norm_content(scn["c"])
    bad = _wrap_with(observer, scn)
    print(json.dumps({"observed_disagreement": bad}, indent=1, default=str))
    if bad:
        print(f"VIOLATION property={prop} replay=(given)")
        return 1
    print("conforms")
    return 0


def _wrap_with(observer, scn):
    global _OBS
    _OBS = observer
    return _wrap(scn)
