\* C19: 2 workers, 4 keys, two crashes, no emission (thorough, model checking only)
CONSTANTS
    NKeys = 4
    W = 2
    L = 2
    Design = "temp"
    Policy = "trust"
    RenameAt = "closed"
    BypassOne = FALSE
    MkdirAtBuild = FALSE
    Recover = FALSE
    Forwards = TRUE
    MaxDrop = 0
    LossyNames = FALSE
    Memo = FALSE
    MaxClear = 0
    MaxExtra = 0
    MaxCrash = 2
    Fifo = TRUE
    EmitOn = FALSE
INIT Init
NEXT Next
INVARIANT TypeOK
INVARIANT NoRaise
INVARIANT RightResults
INVARIANT Injective
INVARIANT NoRecompute
INVARIANT AllStored
INVARIANT ComputesExactlyMissing
INVARIANT FinalWhole
INVARIANT OneOwner
INVARIANT Emit
CHECK_DEADLOCK TRUE
