#!/venv/bin/python
"""Regenerates /verif/seeded/INDEX.md from the meta.json files of the kept seeded changes."""
import json
from pathlib import Path

root = Path("/verif/seeded")

# seeded changes the quick check of the day did NOT catch at first, and what was strengthened (then re-tried)
STRENGTHENED = {
    "C03-mut_C03-m1": "missed at first (update_derived(fn=...) without args= kept a stale cache); ModelEdit got function-only / "
                      "arguments-only update modes for update_derived and update_reaction",
    "C07-mut_C07-m2": "missed at first (if-branch translated on the shared symbol table in fn_to_sympy); FnLib got `cut` (local "
                      "re-bound inside a one-sided if)",
    "C11-mut_C11-m2": "missed at first (zip(strict=True) dropped: helper called with a defaulted parameter); FnLib got the optional-"
                      "translatable `dflt`, the C06 oracle corpus got helper calls with defaulted / keyword arguments",
    "C12-mut_C12-m2": "missed at first (Jacobian closure captured parameter values at construction); the closure is now also called "
                      "after Simulator.update_parameter and compared with the specification's Jacobian for p := 5 - which exposed "
                      "a genuine defect (fixed, a665c2e)",
    "C13-mut_C13-m2": "missed at first (static/dynamic split of computed coefficients read the reaction's arguments); C13 now also "
                      "compares stoichiometries and derivatives at states != initial",
    "C09-mut_C09-m2": "missed at first (scan column naming an assignment-defined parameter dropped); ParMap got the column q",
    "C15-mut_C15-m2": "missed at first (get_result returned earlier results after a failed steady-state search); SteadyLoop got "
                      "a history (none / earlier simulate / simulate+clear) and a refuted wrong reporter instance",
    "C16-mut_C16-m1": "missed at first (position expansion of a compound with coefficient 2 and 2 positions); new family `doubled`",
    "C06-mut_C11-m2": "the C06 check did not catch this C11-targeted change at first; caught after the corpus extension",
}
rows = []
for d in sorted(p for p in root.iterdir() if p.is_dir()):
    m = json.loads((d / "meta.json").read_text())
    summ = " ".join(m.get("check_summary", []))[:160].replace("|", "/")
    rows.append((d.name, m["property"], m.get("needs", m.get("idea", "")), m.get("demo_with_change_exit"),
                 m.get("tests_with_change", "n/a"), m.get("check_cmd", ""), "caught" if m.get("detected") else "MISSED",
                 STRENGTHENED.get(d.name, m.get("caught_by_after_strengthening", "")), summ))
out = ["# Seeded changes (each confirmed in a scratch worktree; never committed to /repo)", "",
       "| id | property | what it needs to manifest | demo exit with change | repo tests with change | check run | verdict | note | check summary |",
       "|---|---|---|---|---|---|---|---|---|"]
for r in rows:
    out.append("| " + " | ".join(str(x) for x in r) + " |")
caught = sum(1 for r in rows if r[6] == "caught")
out += ["", f"{caught} of {len(rows)} seeded changes are caught by the registered quick checks."]
(root / "INDEX.md").write_text("\n".join(out) + "\n")
print("\n".join(out[-3:]))
