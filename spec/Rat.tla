-------------------------------- MODULE Rat --------------------------------
(***************************************************************************)
(* Shared core (C06, C07, C08, C11, C12): exact rational arithmetic that   *)
(* TLC can evaluate.                                                       *)
(*                                                                         *)
(* INTERFACE                                                               *)
(*   a rational is a record [n |-> Int, d |-> Nat \ {0}], normalised       *)
(*   (gcd(n, d) = 1, d > 0); equal numbers are equal records, so `=` is    *)
(*   numeric equality on rationals.                                        *)
(*   Two distinguished non-numbers share the shape (d = 0):                *)
(*     Undef == [n |-> 0, d |-> 0]   the operation is undefined in Python  *)
(*                                   (ZeroDivisionError, unbound name ...) *)
(*     Skip  == [n |-> 1, d |-> 0]   the specification declines to decide  *)
(*                                   (magnitude guard, non-integer power,  *)
(*                                   opaque function): discard the case    *)
(*   Every operator is strict, left operand first: a bad operand is        *)
(*   returned as the result (this is Python's left-to-right evaluation).   *)
(*     R(n, d)  RFromInt(i)  RNeg RAbs RAdd RSub RMul RDiv RInv            *)
(*     RPow(a, e)      e a rational with denominator 1 (negative allowed;  *)
(*                     0 ** negative = Undef; |e| > MaxExp or non-integer  *)
(*                     e = Skip)                                           *)
(*     RFloorDiv RMod  Python semantics (floor; sign of the divisor)       *)
(*     RMin RMax       REq RLt RLe (BOOLEAN; operands must be rationals)   *)
(*     IsRat(v) Bad(v) Safe(v) IsInt(v) RFloor(v)                          *)
(*   TLC integers are 32 bit and TLC aborts on overflow, therefore every   *)
(*   product is guarded *before* it is computed (MulOk) and every result   *)
(*   must satisfy Safe (|n|, d < 2^20); otherwise the result is Skip.      *)
(*   JSON: ToJson prints {"n": .., "d": ..}; mbt/render.py: rat_of_json.   *)
(***************************************************************************)
EXTENDS Integers

Lim == 1048576          \* 2^20 : bound on numerators / denominators of results
Big == 536870912        \* 2^29 : bound on intermediate products (two of them may be added)
MaxExp == 12

Undef == [n |-> 0, d |-> 0]
Skip  == [n |-> 1, d |-> 0]

IAbs(x) == IF x < 0 THEN 0 - x ELSE x

RECURSIVE GcdR(_, _)
GcdR(a, b) == IF b = 0 THEN a ELSE GcdR(b, a % b)
Gcd(a, b) == GcdR(IAbs(a), IAbs(b))

IsRat(v) == v.d > 0
Bad(v)   == v.d = 0
Safe(v)  == v.d > 0 /\ v.d < Lim /\ IAbs(v.n) < Lim
IsInt(v) == v.d = 1

MulOk(x, y) == x = 0 \/ y = 0 \/ IAbs(x) <= Big \div IAbs(y)

\* n/d for any integers with |n|, |d| <= 2^30, d # 0
Norm(n, d) ==
    LET g == Gcd(n, d)
        s == IF d < 0 THEN 0 - 1 ELSE 1
    IN [n |-> (s * n) \div g, d |-> (s * d) \div g]

R(n, d) ==
    IF d = 0 THEN Undef
    ELSE LET r == Norm(n, d) IN IF Safe(r) THEN r ELSE Skip

RFromInt(i) == IF IAbs(i) < Lim THEN [n |-> i, d |-> 1] ELSE Skip
Zero == [n |-> 0, d |-> 1]
One  == [n |-> 1, d |-> 1]

RNeg(a) == IF Bad(a) THEN a ELSE [n |-> 0 - a.n, d |-> a.d]
RAbs(a) == IF Bad(a) THEN a ELSE [n |-> IAbs(a.n), d |-> a.d]

RAdd(a, b) ==
    IF Bad(a) THEN a ELSE IF Bad(b) THEN b
    ELSE IF MulOk(a.n, b.d) /\ MulOk(b.n, a.d) /\ MulOk(a.d, b.d)
         THEN R(a.n * b.d + b.n * a.d, a.d * b.d) ELSE Skip

RSub(a, b) == IF Bad(a) THEN a ELSE IF Bad(b) THEN b ELSE RAdd(a, RNeg(b))

RMul(a, b) ==
    IF Bad(a) THEN a ELSE IF Bad(b) THEN b
    ELSE IF MulOk(a.n, b.n) /\ MulOk(a.d, b.d) THEN R(a.n * b.n, a.d * b.d) ELSE Skip

RInv(a) == IF Bad(a) THEN a ELSE IF a.n = 0 THEN Undef ELSE R(a.d, a.n)

RDiv(a, b) ==
    IF Bad(a) THEN a ELSE IF Bad(b) THEN b
    ELSE IF b.n = 0 THEN Undef
    ELSE IF MulOk(a.n, b.d) /\ MulOk(a.d, b.n) THEN R(a.n * b.d, a.d * b.n) ELSE Skip

RECURSIVE RPowNat(_, _)
RPowNat(a, k) == IF k = 0 THEN One ELSE RMul(a, RPowNat(a, k - 1))

RPow(a, e) ==
    IF Bad(a) THEN a ELSE IF Bad(e) THEN e
    ELSE IF e.d # 1 \/ IAbs(e.n) > MaxExp THEN Skip
    ELSE IF e.n >= 0 THEN RPowNat(a, e.n)
    ELSE IF a.n = 0 THEN Undef
    ELSE RPowNat(RInv(a), 0 - e.n)

\* comparisons: callers guarantee IsRat on both sides (d > 0, so cross-multiplication keeps the order)
REq(a, b) == a = b
RLt(a, b) == IF MulOk(a.n, b.d) /\ MulOk(b.n, a.d) THEN a.n * b.d < b.n * a.d
             ELSE a.n < 0 /\ b.n >= 0          \* unreachable for Safe values (2^20 * 2^20 > Big is excluded by CmpOk)
RLe(a, b) == a = b \/ RLt(a, b)
CmpOk(a, b) == MulOk(a.n, b.d) /\ MulOk(b.n, a.d)

\* floor of a rational as an integer (TLA+ \div is floor division for a positive divisor)
RFloor(a) == a.n \div a.d

RFloorDiv(a, b) ==
    LET q == RDiv(a, b) IN IF Bad(q) THEN q ELSE RFromInt(RFloor(q))

RMod(a, b) ==
    LET q == RFloorDiv(a, b) IN IF Bad(q) THEN q ELSE RSub(a, RMul(b, q))

RMin(a, b) == IF Bad(a) THEN a ELSE IF Bad(b) THEN b
              ELSE IF ~CmpOk(a, b) THEN Skip ELSE IF RLt(b, a) THEN b ELSE a     \* Python: min(a, b) keeps a on ties
RMax(a, b) == IF Bad(a) THEN a ELSE IF Bad(b) THEN b
              ELSE IF ~CmpOk(a, b) THEN Skip ELSE IF RLt(a, b) THEN b ELSE a
=============================================================================
