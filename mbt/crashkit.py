"""C19 fault injection: run the real cache-backed parallel map / scan in a child process group,
stop every worker at a specification-chosen stage (callback level, file-open level, byte offset of
the write), kill the run, and observe reruns in fresh processes.

Everything the child does goes through public entry points: ``parallelise(..., cache=Cache(...))``,
``scan.steady_state(..., cache=..., worker=...)`` and the public ``Cache`` fields name_fn / load_fn /
save_fn (wrappers around the library's own defaults).  Byte-level stops come from wrapping
``builtins.open`` / ``io.open`` / ``os.open`` / ``os.replace`` / ``os.rename`` for paths under the
cache directory only.

Child processes are plain ``os.fork`` children of the check process (fresh with respect to run state;
the library keeps no in-memory cache), made session leaders so that ``killpg`` takes pool workers too.
"""

from __future__ import annotations

import builtins
import io
import json
import os
import signal
import sys
import time
import traceback
from pathlib import Path
from types import SimpleNamespace

LABELS = ["a", "b", "c", "d", "e"]            # real keys of the pmap flavour (spec key i -> LABELS[i-1])
SCAN_ROWS = [1.0, 2.0, 4.0, 8.0, 16.0]        # scanned values of k (scan flavour); keys are the row labels 0..n-1

# Key menus.  The first two keys of every menu (spec keys 1 and 2) are SIBLINGS: distinct keys whose texts differ only
# in sign / punctuation / white space -- the key -> stored-entry map has to keep them apart.
PMAP_KEYS = {
    "plain": ["a", "b", "c", "d", "e"],
    "signed-tuples": [(0.5, -1), (0.5, 1), (-0.5, 1), (-0.5, -1), (1e-16, 2)],
    "punct": ["a-b", "a b", "a+b", "a_b", "\u00e4\u00b7b"],
    "mixed": [-1, "_1", 1, "+1", "1 "],
    "slash": ["a/b", "a b", "a%2Fb", "a", "b"],
    "equal-str": [1, "1", 2, "2", 3],          # str() of the siblings is EQUAL (known finding keys-with-equal-str)
}
# scan flavour: (k_in, k) per row; the keys parallelise sees are the row labels of the table
SCAN_GRID = [(-2.0, 1.0), (2.0, 1.0), (2.0, 2.0), (-2.0, 2.0), (4.0, 1.0)]
SCAN_MENUS = ("range", "signed-grid", "signed-column")


def scan_table(menu: str, n: int):
    """range: one column k, default labels 0..n-1.  signed-grid: columns k_in, k, labelled by its own values (tuple keys,
    symmetric around zero -- what cartesian_product + MultiIndex.from_frame gives).  signed-column: one column k_in
    labelled by its own values (-2.0, 2.0, ...)."""
    import pandas as pd

    if menu == "signed-grid":
        df = pd.DataFrame({"k_in": [r[0] for r in SCAN_GRID[:n]], "k": [r[1] for r in SCAN_GRID[:n]]})
        df.index = pd.MultiIndex.from_frame(df)
        return df
    if menu == "signed-column":
        vals = [-2.0, 2.0, 4.0, -4.0, 8.0][:n]
        return pd.DataFrame({"k_in": vals}, index=pd.Index(vals))
    return pd.DataFrame({"k": SCAN_ROWS[:n]})


# every public entry point that takes cache= (besides parallelise itself); True: it also takes worker=
ENTRY_POINTS = {
    "scan.steady_state": True, "scan.time_course": True, "scan.protocol": True, "scan.protocol_time_course": True,
    "mc.steady_state": True, "mc.time_course": True, "mc.protocol": True, "mc.protocol_time_course": True,
    "mc.scan_steady_state": True,
    "mc.variable_elasticities": False, "mc.parameter_elasticities": False, "mc.response_coefficients": False,
}


def keys_of(flavour: str, menu: str | None, n: int) -> list:
    if flavour == "pmap":
        return list(PMAP_KEYS[menu or "plain"][:n])
    return [lab for lab, _ in scan_table(menu or "range", n).iterrows()]


_G = SimpleNamespace(
    active=False, cache_dir="", ctl="", plan={}, block=set(), killer=None, wait_for=[], kill="group",
    logfd=-1, key=0, labels=[], keys=[], fds={}, done_flags=True, shared_cache=None,
)
_REAL = SimpleNamespace(open=builtins.open, os_open=os.open, replace=os.replace, rename=os.rename)


# --------------------------------------------------------------------------------------------
# event log (one O_APPEND write per event: atomic, survives SIGKILL)
# --------------------------------------------------------------------------------------------
def _log(e: str, k: int, **kw) -> None:
    if _G.logfd < 0:
        return
    rec = {"e": e, "k": int(k), "pid": os.getpid(), "t": time.monotonic_ns(), **kw}
    os.write(_G.logfd, (json.dumps(rec) + "\n").encode())


def _flag(name: str) -> None:
    fd = _REAL.os_open(os.path.join(_G.ctl, name), os.O_WRONLY | os.O_CREAT, 0o644)
    os.close(fd)


def _stop(ki: int) -> None:
    """The worker holding key ki has reached its stage: block; the designated killer ends the run."""
    _flag(f"reached_{ki}")
    if ki == _G.killer:
        deadline = time.monotonic() + 8
        need = list(_G.wait_for)
        while need:
            need = [n for n in need if not os.path.exists(os.path.join(_G.ctl, n))]
            if need and time.monotonic() > deadline:
                _flag("unrealised")
                break
            if need:
                time.sleep(0.001)
        _flag("killed")
        if _G.kill == "group":
            os.killpg(os.getpgrp(), signal.SIGKILL)
        os._exit(17)
    while True:
        time.sleep(3600)


def _stage(ki: int) -> dict | None:
    return _G.plan.get(ki)


def _index_of(k) -> int:
    return _G.labels.index(str(k)) + 1


# --------------------------------------------------------------------------------------------
# Cache callbacks (public fields of mxlpy.parallel.Cache), wrapping the library's defaults
# --------------------------------------------------------------------------------------------
_DEFAULT = None


def _default_cache():
    global _DEFAULT
    if _DEFAULT is None:
        from mxlpy.parallel import Cache

        _DEFAULT = Cache()
    return _DEFAULT


def k_name(k) -> str:
    ki = _index_of(k)
    _G.key = ki
    _log("name", ki)
    return _default_cache().name_fn(k)


def _early_stop(ki: int) -> None:
    """Stage 'taken' and keys that must not progress: stopped at the first point of the per-key work that changes
    nothing on disk (begin of the load / of the computation) -- name_fn itself may be called ahead of time by a
    design that looks all keys up first."""
    st = _stage(ki)
    if (st and st["at"] == "taken") or ki in _G.block:
        _stop(ki)


def k_load(file):
    ki = _G.key
    _log("load_begin", ki)
    _early_stop(ki)
    st = _stage(ki)
    if st and st["at"] == "hit":
        _stop(ki)
    try:
        val = _default_cache().load_fn(file)
    except BaseException as e:  # noqa: BLE001
        _log("load_end", ki, ok=False, exc=type(e).__name__)
        raise
    _log("load_end", ki, ok=True)
    _flag(f"done_{ki}")
    return val


def k_save(file, data) -> None:
    ki = _G.key
    _log("save_begin", ki)
    st = _stage(ki)
    if st and st["at"] == "computed":
        _stop(ki)
    _default_cache().save_fn(file, data)
    _log("save_end", ki)
    _flag(f"done_{ki}")
    if st and st["at"] in ("writing", "closed", "saved"):
        # a stage the implementation never passed through (e.g. it does not rename): the file is whole now
        _stop(ki)


def _before_compute(ki: int) -> None:
    _G.key = ki
    _early_stop(ki)
    st = _stage(ki)
    if st and st["at"] == "miss":
        _stop(ki)
    _log("compute", ki)


def k_compute(v: dict):
    """The function mapped by the pmap flavour (deterministic, small, picklable result)."""
    if _G.active:
        _before_compute(v["i"])
    x, ver = v["x"], v.get("ver", 1)          # ver: the "function" the caller currently maps (F, F', ...)
    return {"sq": x * x * ver, "lst": list(range(v["i"] + 1 + ver)), "s": "r" * (3 * v["i"]), "f": x / 7.0, "ver": ver}


def k_ss_worker(model, *, rel_norm, integrator, y0):
    """worker= of scan.steady_state (public extension point): log the computation, then the library's own worker."""
    from mxlpy.scan import steady_state  # noqa: F401  (import check)
    import inspect

    if _G.active:
        _before_compute(_G.key)
    default = inspect.signature(steady_state).parameters["worker"].default
    return default(model, rel_norm=rel_norm, integrator=integrator, y0=y0)


def ep_worker(model, *args, _ep: str, **kw):
    """worker= of any entry point that has one: log the computation, then the library's own default worker."""
    import importlib
    import inspect

    if _G.active:
        _before_compute(_G.key)
    mod, fn = _ep.rsplit(".", 1)
    default = inspect.signature(getattr(importlib.import_module("mxlpy." + mod), fn)).parameters["worker"].default
    return default(model, *args, **kw)


# --------------------------------------------------------------------------------------------
# file-level interception (paths under the cache directory only)
# --------------------------------------------------------------------------------------------
def _under(p) -> bool:
    try:
        s = os.path.abspath(os.fspath(p))
    except TypeError:
        return False
    if isinstance(s, bytes):
        s = s.decode(errors="replace")
    return s.startswith(_G.cache_dir + os.sep)


class _WFile:
    """Proxy of a file opened for writing under the cache directory: counts bytes, stops at the planned offset."""

    def __init__(self, f, ki):
        self._f = f
        self._ki = ki
        self._pos = 0

    def _plan_off(self):
        st = _stage(self._ki)
        if st and st["at"] == "writing":
            return st["off"]
        return None

    def write(self, data):
        off = self._plan_off()
        n = len(data)
        if isinstance(off, int) and off > 0 and self._pos < off <= self._pos + n:
            part = bytes(data)[: off - self._pos] if not isinstance(data, str) else data[: off - self._pos]
            self._f.write(part)
            self._f.flush()
            _log("cut", self._ki, off=off)
            _stop(self._ki)
        r = self._f.write(data)
        self._pos += n
        return r

    def close(self):
        if not self._f.closed:
            off = self._plan_off()
            if off == "end":
                self._f.flush()
                _log("cut", self._ki, off=self._pos)
                _stop(self._ki)
            elif isinstance(off, int) and off > self._pos:
                _log("short", self._ki, off=off, size=self._pos)
        return self._f.close()

    def __enter__(self):
        return self

    def __exit__(self, *a):
        self.close()
        return False

    def __getattr__(self, name):
        return getattr(self._f, name)

    def __iter__(self):
        return iter(self._f)


def _open(file, mode="r", *a, **kw):
    path = _G.fds.get(file) if isinstance(file, int) else file
    f = _REAL.open(file, mode, *a, **kw)
    if _G.active and path is not None and set(mode) & set("wax+") and _under(path):
        ki = _G.key
        _log("open", ki, final=os.path.basename(os.fspath(path)) == _default_cache().name_fn(_G.keys[ki - 1]) if ki else False)
        st = _stage(ki)
        if st and st["at"] == "writing" and st["off"] == 0:
            f.flush()
            _log("cut", ki, off=0)
            _stop(ki)
        return _WFile(f, ki)
    return f


def _os_open(path, flags, *a, **kw):
    fd = _REAL.os_open(path, flags, *a, **kw)
    if _G.active and flags & (os.O_WRONLY | os.O_RDWR) and _under(path):
        _G.fds[fd] = path
    return fd


def _mk_mover(real):
    def mover(src, dst, *a, **kw):
        if _G.active and (_under(src) or _under(dst)):
            ki = _G.key
            _log("replace", ki)
            st = _stage(ki)
            if st and st["at"] == "closed":
                _stop(ki)                       # immediately before the rename
            r = real(src, dst, *a, **kw)
            if st and st["at"] == "saved" and st.get("point") == "replace":
                _log("cut", ki, off="after-replace")
                _stop(ki)                       # immediately after it returned; nothing is flushed on our side
            return r
        return real(src, dst, *a, **kw)

    return mover


def install() -> None:
    builtins.open = _open
    io.open = _open
    os.open = _os_open
    os.replace = _mk_mover(_REAL.replace)
    os.rename = _mk_mover(_REAL.rename)


# --------------------------------------------------------------------------------------------
# the run itself
# --------------------------------------------------------------------------------------------
def scaled(k_in, s):
    return k_in * s


def scan_model(ver: int = 1):
    from mxlpy import Model, fns

    m = Model()
    m.add_variable("x", 1.0)
    m.add_parameters({"k_in": 2.0, "k": 1.0, "s": float(ver)})      # s: the "version" of the model
    m.add_reaction("v_in", scaled, args=["k_in", "s"], stoichiometry={"x": 1.0})
    m.add_reaction("v_out", fns.mass_action_1s, args=["x", "k"], stoichiometry={"x": -1.0})
    return m


def _frames(scan) -> dict:
    v, f = scan.variables, scan.fluxes
    return {"index": [str(i) for i in v.index], "vcols": list(map(str, v.columns)), "fcols": list(map(str, f.columns)),
            "v": [[float(x) for x in row] for row in v.to_numpy()], "f": [[float(x) for x in row] for row in f.to_numpy()]}


def do_run(job: dict):
    """One (cached or uncached) run of the flavour; returns a JSON-able result."""
    return run_once(job)[1]


def run_once(job: dict):
    """One run; returns (the library's own return value, JSON-able projection).  job['ver'] = function/model version."""
    from mxlpy.parallel import Cache, parallelise

    n = job["nk"]
    cache = None
    if job["cache"]:
        if job.get("cache_obj") == "shared":
            # ONE Cache object for the whole in-process history (built once, re-used / re-pointed by the caller)
            if _G.shared_cache is None:
                _G.shared_cache = Cache(tmp_dir=Path(job["cache_dir"]), name_fn=k_name, load_fn=k_load, save_fn=k_save)
            cache = _G.shared_cache
        else:
            cache = Cache(tmp_dir=Path(job["cache_dir"]), name_fn=k_name, load_fn=k_load, save_fn=k_save)
    par = job["w"] > 0
    if job["flavour"] == "pmap":
        keys = keys_of("pmap", job.get("keys"), n)
        inputs = [(keys[i], {"i": i + 1, "x": float(3 + i), "ver": job.get("ver", 1)}) for i in range(n)]
        out = parallelise(k_compute, inputs, cache=cache, parallel=par, max_workers=job["w"] if par else None,
                          disable_tqdm=True)
        return out, json.loads(json.dumps({"keys": [k for k, _ in out], "values": [v for _, v in out]}))
    import multiprocessing

    import pandas as pd

    from mxlpy import scan

    if par:
        multiprocessing.cpu_count = lambda: job["w"]  # the pool size scan.* reads (no public worker-count argument)
    if job["flavour"] == "scan":
        res = scan.steady_state(scan_model(job.get("ver", 1)), to_scan=scan_table(job.get("keys") or "range", n), parallel=par,
                                cache=cache, worker=k_ss_worker)
        return res, _frames(res)
    res = run_entry(job["flavour"], job, cache, par)
    return res, _project(res)


def _project(res) -> dict:
    import pandas as pd

    def fr(df):
        return {"index": [str(i) for i in df.index], "cols": [str(c) for c in df.columns],
                "data": [[float(x) for x in row] for row in df.to_numpy()]}

    if isinstance(res, pd.DataFrame):
        return {"frame": fr(res)}
    return {"v": fr(res.variables), "f": fr(res.fluxes)}


def run_entry(ep: str, job: dict, cache, par: bool):
    """One call of a public entry point that takes cache= (ENTRY_POINTS), over the key menu's table."""
    import importlib
    from functools import partial

    import numpy as np
    import pandas as pd

    from mxlpy import make_protocol

    ver, n, w = job.get("ver", 1), job["nk"], job["w"]
    mod, fn = ep.rsplit(".", 1)
    f = getattr(importlib.import_module("mxlpy." + mod), fn)
    tab = scan_table(job.get("keys") or "range", n)
    kw: dict = {"cache": cache}
    if ENTRY_POINTS[ep]:
        kw["worker"] = partial(ep_worker, _ep=ep)
    if mod == "scan":
        kw.update(to_scan=tab, parallel=par)
    else:
        kw.update(mc_to_scan=tab, max_workers=max(1, w))
    prot = make_protocol([(1.0, {"s": float(ver)}), (1.0, {"s": 2.0 * ver})])
    if fn == "time_course":
        kw["time_points"] = np.array([0.0, 0.5, 1.0])
    elif fn == "protocol":
        kw.update(protocol=prot, time_points_per_step=3)
    elif fn == "protocol_time_course":
        kw.update(protocol=prot, time_points=np.array([0.5, 1.5]))
    elif fn == "scan_steady_state":
        kw["to_scan"] = pd.DataFrame({"s": [float(ver), 2.0 * ver]})
    elif fn == "variable_elasticities":
        kw.update(to_scan=["x"], variables={"x": 1.0})
    elif fn == "parameter_elasticities":
        kw.update(to_scan=["k", "s"], variables={"x": 1.0})
    elif fn == "response_coefficients":
        kw.update(to_scan=["k", "s"], disable_tqdm=True)
    return f(scan_model(ver), **kw)


def mutate_result(flavour: str, raw) -> None:
    """The caller changes, in place, the objects a run returned (aliasing probe)."""
    if flavour == "pmap":
        for _k, v in raw:
            v["lst"].append(-1)
            v["sq"] = -1.0
    elif flavour != "scan":
        return                      # the aliasing probe is defined for the two base flavours only
    else:
        for sim in raw.raw_results:
            for df in sim.raw_variables:
                df.iloc[:, :] = -5.0
            sim.raw_args.clear()


def inproc_main(job: dict) -> dict:
    """An in-process history without a crash: run / rerun / mutate / clear (+ changed function) ... in ONE process.
    After every cached run the same process also runs without a cache (reference of the current function)."""
    import shutil

    ver, last, runs = 1, None, []
    job = dict(job)
    for step in job["steps"]:
        op = step["op"]
        if op.startswith("drop"):
            # the caller deletes some entries: a half-filled cache
            import re as _re

            ks = [int(x) for x in _re.findall(r"\d+", op)]
            _log("op", sum(1 << (k - 1) for k in ks), op="drop")
            names = [_default_cache().name_fn(_G.keys[k - 1]) for k in ks]
            for nm in names:
                fp = os.path.join(job["cache_dir"], nm)
                if os.path.exists(fp):
                    os.remove(fp)
            continue
        if op in ("run", "rerun", "rerun*"):
            _log("op", 0, op=op)
            _G.active = True
            nk_run = step.get("nk", job["nk"])          # a run may ask for a prefix of the keys only
            last, js = run_once({**job, "cache": True, "w": step["w"], "ver": ver, "nk": nk_run})
            _G.active = False
            _, ref = run_once({**job, "cache": False, "w": 0, "ver": ver, "nk": nk_run})
            stored = sum(os.path.exists(os.path.join(job["cache_dir"], _default_cache().name_fn(k))) for k in _G.keys)
            runs.append({"op": op, "ver": ver, "w": step["w"], "out": js, "ref": ref, "stored": stored})
        elif op == "clear":
            _log("op", 0, op=op)
            if job.get("clear_how") == "repoint" and _G.shared_cache is not None:
                # the caller points the SAME Cache object at a directory that does not exist yet
                job["cache_dir"] = job["cache_dir"] + "_next"
                _G.cache_dir = os.path.abspath(job["cache_dir"])
                _G.shared_cache.tmp_dir = Path(job["cache_dir"])
            else:
                shutil.rmtree(job["cache_dir"], ignore_errors=True)     # the documented way to invalidate
            ver += 1
        elif op == "mutate":
            _log("op", 0, op=op)
            mutate_result(job["flavour"], last)
    return {"runs": runs}


def child_main(job: dict) -> int:
    os.setsid()
    ctl = job["ctl"]
    _G.ctl = ctl
    _G.cache_dir = os.path.abspath(job.get("cache_dir") or "/nonexistent")
    _G.keys = keys_of(job["flavour"], job.get("keys"), job["nk"])
    _G.labels = [str(k) for k in _G.keys]
    _G.plan = {int(k): v for k, v in (job.get("plan") or {}).items()}
    _G.block = set(job.get("block") or [])
    _G.killer = job.get("killer")
    _G.wait_for = job.get("wait_for") or []
    _G.kill = job.get("kill", "group")
    _G.active = bool(job["cache"])
    if job["cache"]:
        _G.logfd = _REAL.os_open(job["log"], os.O_WRONLY | os.O_CREAT | os.O_APPEND, 0o644)
        install()
    devnull = _REAL.os_open(os.devnull, os.O_WRONLY)
    os.dup2(devnull, 2)
    try:
        out = inproc_main(job) if job.get("steps") else do_run(job)
        if _G.killer == 0:      # crash after every key was handled, before the call returns to the caller
            _stop(0)
        doc = {"ok": True, "out": out}
        code = 0
    except BaseException as e:  # noqa: BLE001
        doc = {"ok": False, "exc": type(e).__name__, "msg": str(e)[:300], "tb": traceback.format_exc()[-1500:]}
        code = 3
    tmp = job["result"] + ".part"
    with _REAL.open(tmp, "w") as fp:
        json.dump(doc, fp)
    _REAL.replace(tmp, job["result"])
    return code


def spawn(job: dict, timeout: float = 60.0) -> dict:
    """Fork a child that runs the job in its own session; wait; clean the process group."""
    sys.stdout.flush()
    sys.stderr.flush()
    pid = os.fork()
    if pid == 0:
        code = 70
        try:
            code = child_main(job)
        finally:
            os._exit(code)
    t0 = time.monotonic()
    status = None
    while True:
        p, st = os.waitpid(pid, os.WNOHANG)
        if p == pid:
            status = st
            break
        if time.monotonic() - t0 > timeout:
            break
        time.sleep(0.002)
    timed_out = status is None
    try:
        os.killpg(pid, signal.SIGKILL)
    except (ProcessLookupError, PermissionError):
        pass
    if timed_out:
        try:
            os.kill(pid, signal.SIGKILL)
        except ProcessLookupError:
            pass
        _, status = os.waitpid(pid, 0)
    info = {"timed_out": timed_out, "wall": round(time.monotonic() - t0, 3)}
    if os.WIFSIGNALED(status):
        info["signal"] = os.WTERMSIG(status)
    else:
        info["exit"] = os.WEXITSTATUS(status)
    if os.path.exists(job["result"]):
        with open(job["result"]) as fp:
            info["result"] = json.load(fp)
    return info


# --------------------------------------------------------------------------------------------
# harness side: plans from specification snapshots, observation of the directory, event logs
# --------------------------------------------------------------------------------------------
def content(snap: dict, k: int) -> int:
    """Chunks that reached the file key k is being written to (temporary file if there is one, else the final path)."""
    t = snap["tmp"][k - 1]
    return t if t >= 0 else snap["fin"][k - 1]


def plan_from_snapshot(snap: dict, nk: int, nchunks: int, offsets: dict, points: dict | None = None) -> dict:
    """Stop points realising one Crash snapshot of CacheCrash.tla.

    offsets: {key index: byte offset} for keys whose spec stage is 'writing' with 0 < b < L.
    Keys held by a worker stop at that worker's stage; keys already handled complete normally; all other
    keys block at the first observable point (inside name_fn, before the existence test) because an idle
    worker of the real pool would immediately take them (equivalent on disk to not having been taken).
    """
    plan, staged = {}, []
    for w in snap["pcs"]:
        k = w["k"]
        if k == 0 or w["at"] == "idle":
            continue
        st = {"at": w["at"]}
        if w["at"] == "writing":
            c = content(snap, k)
            if c <= 0:
                st["off"] = 0
            elif c >= nchunks:
                st["off"] = "end"
            else:
                st["off"] = int(offsets[k])
        if w["at"] == "saved":
            st["point"] = (points or {}).get(k, "replace")
        plan[k] = st
        staged.append(k)
    done = sorted(snap["done"])
    # keys finished by a worker that has not yet returned ('saved') are staged, not done
    block = [k for k in range(1, nk + 1) if k not in plan and k not in done]
    if staged:
        killer = max(staged)
    elif block:
        killer = block[0]
        plan[killer] = {"at": "taken"}
        staged = [killer]
        block = block[1:]
    else:
        killer = 0
    wait_for = [f"reached_{k}" for k in staged if k != killer] + [f"done_{k}" for k in done]
    return {"plan": {str(k): v for k, v in plan.items()}, "block": block, "killer": killer, "wait_for": wait_for}


def read_log(path: str) -> list[dict]:
    if not os.path.exists(path):
        return []
    out = []
    with open(path) as fp:
        for line in fp:
            line = line.strip()
            if line:
                out.append(json.loads(line))
    return out


def observe_dir(cache_dir: str, flavour: str, nk: int, menu: str | None = None) -> dict:
    """Class of every key's final path as the library's own default loader sees it; other files are listed."""
    from mxlpy.parallel import Cache

    c = Cache()
    labels = keys_of(flavour, menu, nk)
    files, sizes = [], []
    names = set()
    for lab in labels:
        p = Path(cache_dir) / c.name_fn(lab)
        names.add(p.name)
        if not p.exists():
            files.append("absent")
            sizes.append(-1)
            continue
        sizes.append(p.stat().st_size)
        try:
            c.load_fn(p)
            files.append("complete")
        except Exception:  # noqa: BLE001
            files.append("partial")
    other = sorted(q.name for q in Path(cache_dir).glob("*") if q.name not in names) if os.path.isdir(cache_dir) else []
    return {"files": files, "sizes": sizes, "other": other}


def lanes(fn, items: list, work: Path, n: int = 16, tag: str = "lane") -> list:
    """Order-preserving fork-based map whose lanes may themselves have children (pool workers are daemonic,
    these are not).  Results must be JSON-able."""
    n = max(1, min(n, len(items)))
    pids = []
    for i in range(n):
        sys.stdout.flush()
        pid = os.fork()
        if pid == 0:
            code = 0
            try:
                res = [fn(x) for x in items[i::n]]
                with open(work / f"{tag}_{i}.json", "w") as fp:
                    json.dump(res, fp)
            except BaseException:  # noqa: BLE001
                traceback.print_exc()
                code = 1
            finally:
                os._exit(code)
        pids.append(pid)
    bad = 0
    for pid in pids:
        _, st = os.waitpid(pid, 0)
        bad += st != 0
    if bad:
        raise RuntimeError(f"{bad} harness lanes failed")
    out = [None] * len(items)
    for i in range(n):
        with open(work / f"{tag}_{i}.json") as fp:
            out[i::n] = json.load(fp)
    return out
