"""code -> spec for C01 / C13: example models and repository test models evaluated by TLC (MxlModelOracle.tla)."""

from __future__ import annotations

import importlib.util
import inspect
import json
from concurrent.futures import ThreadPoolExecutor
from fractions import Fraction

from ..core import Ctx, Report, repo_root
from ..modelenc import Encoder, NotEncodable, rat, to_fraction
from ..modelkit import close
from ..tlc import MachineryError, fn_to_dict


def collect() -> list[tuple[str, object]]:
    import example_models as em

    out = [(f"example_models.{n}", f) for n, f in inspect.getmembers(em, inspect.isfunction) if n.startswith("get_")]
    p = repo_root() / "tests" / "models.py"
    if p.exists():
        sp = importlib.util.spec_from_file_location("repo_test_models", p)
        tm = importlib.util.module_from_spec(sp)
        sp.loader.exec_module(tm)
        out += [(f"tests.models.{n}", f) for n, f in inspect.getmembers(tm, inspect.isfunction) if n.startswith("m_")]
    return out


def points(m) -> list[dict]:
    init = {k: Fraction(repr(float(v))) for k, v in m.get_initial_conditions().items()}
    pts = [{"y": init, "t": Fraction(0)}]
    pts.append({"y": {k: v * Fraction(3, 2) + Fraction(1, 4) for k, v in init.items()}, "t": Fraction(2)})
    pts.append({"y": {k: v / 2 + Fraction(j + 1, 8) for j, (k, v) in enumerate(init.items())}, "t": Fraction(5, 2)})
    return pts


FRACTIONS = [0.5, -1.5, 1.25, -0.25, 0.75]


def fractional_variants(scenarios: list[dict], limit: int) -> list[tuple[str, object]]:
    """Members of the generated family with their numeric coefficients, plain parameter values and plain initial
    values replaced by fractions (the integer value algebra of ModelEval cannot express those); they are judged
    by the rational oracle like the shipped models."""
    import copy

    from ..modelkit import build_model

    out = []
    for s in scenarios:
        c = s["c"]
        if c["sur"] or c["data"] or c["ro"] or not c["rxn"]:
            continue
        if not any(co["k"] == "num" for r in c["rxn"].values() for co in r["st"].values()):
            continue
        c2 = copy.deepcopy(c)
        j = s["idx"]
        for r in c2["rxn"].values():
            for co in r["st"].values():
                if co["k"] == "num":
                    co["v"] = FRACTIONS[j % len(FRACTIONS)] * (1 if co["v"] > 0 else -1) * (2 if abs(co["v"]) == 2 else 1)
                    j += 1
        for p in c2["pars"].values():
            if p["k"] == "num":
                p["v"] = p["v"] / 2
        for v in c2["init"].values():
            if v["k"] == "num":
                v["v"] = v["v"] / 4
        out.append((f"fractional[{s['idx']}]", (lambda cc=c2: build_model(cc)[0])))
    # evenly spread over the family (exhaustive small members first, simulated rich members later)
    if len(out) > limit:
        step = len(out) / limit
        out = [out[int(k * step)] for k in range(limit)]
    return out


def run(ctx: Ctx, rep: Report, what: str, extra: list | None = None) -> None:
    """what: 'C01' (tables and derivatives) or 'C13' (initial values, derived parameters, frozen values)."""
    cases = []
    skipped = {}
    for name, factory in collect() + list(extra or []):
        try:
            m = factory()
            enc = Encoder()
            c = enc.model(m)
            pts = points(m)
            case = {"id": name, "c": c, "ft": enc.ft,
                    "pts": [{"y": {k: rat(v) for k, v in p["y"].items()}, "t": rat(p["t"])} for p in pts]}
        except NotEncodable as e:
            skipped[name] = str(e)[:100]
            continue
        cases.append((name, m, pts, case))
    if len([c for c in cases if not c[0].startswith("fractional")]) < 10:
        raise MachineryError(f"only {len(cases)} shipped models could be encoded: {skipped}")
    rep.notes["oracle_fractional_variants"] = len([c for c in cases if c[0].startswith("fractional")])

    def judge_one(item):
        name, m, pts, case = item
        cf = ctx.work / f"oracle_{name.replace('.', '_')}.json"
        cf.write_text(json.dumps(case))
        return ctx.tlc("MxlModelOracle.tla", "MxlModelOracle.cfg", tag=f"oracle_{name.replace('.', '_')}",
                       env={"CASE_FILE": str(cf)}, workers=1)

    with ThreadPoolExecutor(8) as ex:
        results = list(ex.map(judge_one, cases))
    n_vals = n_skip = n_refused = 0
    for (name, m, pts, case), res in zip(cases, results):
        rep.add_tlc(res, f"oracle: {name} evaluated by the specification (exact rationals, PyFn bodies)")
        if len(res.payloads) != 1:
            raise MachineryError(f"oracle produced {len(res.payloads)} answers for {name}")
        ans = res.payloads[0]
        rep.evaluations += 1
        rep.distinct.add(("oracle", name))
        scn = {"oracle_model": name}
        if ans["kinds"] != ["ok"]:
            rep.mismatch(scn, {"what": "oracle: specification rejects a shipped model", "kinds": ans["kinds"]}, None)
            continue
        bad = None
        if what == "C13":
            got = dict(m.get_initial_conditions())
            for k, v in fn_to_dict(ans["init"]).items():
                f = to_fraction(v)
                if f is None:
                    n_skip += 1
                    continue
                n_vals += 1
                if not close(float(f), got[k]):
                    bad = {"what": "oracle: initial value", "name": k, "expected": str(f), "observed": got[k]}
            if sorted(ans["static"]) != sorted(m.get_derived_parameter_names()):
                bad = {"what": "oracle: derived parameters", "expected": sorted(ans["static"]),
                       "observed": sorted(m.get_derived_parameter_names())}
        sm = None
        if what == "C12":
            # the symbolic equations of the same model, judged by the same exact values (fractional coefficients,
            # shipped rate laws); a refused conversion is a visible failure and not judged here
            try:
                from mxlpy.symbolic import to_symbolic_model

                sm = to_symbolic_model(m)
            except Exception:  # noqa: BLE001
                n_refused += 1
        for p, out in zip(pts, ans["pts"]):
            y = {k: float(v) for k, v in p["y"].items()}
            t = float(p["t"])
            if sm is not None:
                import sympy

                subs = {sym: y[k] for k, sym in sm.variables.items()}
                subs.update({sym: sm.parameter_values[k] for k, sym in sm.parameters.items()})
                subs[sympy.Symbol("time")] = t
                try:
                    eqs = [float(e.subs(subs)) for e in sm.eqs]
                except Exception as e:  # noqa: BLE001
                    if all(to_fraction(v) is not None for v in out["rhs"]):
                        bad = {"what": "oracle: symbolic equations cannot be evaluated where the specification has values",
                               "exception": f"{type(e).__name__}: {str(e)[:100]}", "t": t, "y": y}
                    continue
                for j, v in enumerate(out["rhs"]):
                    f = to_fraction(v)
                    if f is None:
                        n_skip += 1
                        continue
                    n_vals += 1
                    if j >= len(eqs) or not close(float(f), eqs[j]):
                        bad = {"what": "oracle: symbolic equations", "position": j, "expected": str(f),
                               "observed": eqs[j] if j < len(eqs) else None, "t": t, "y": y}
            try:
                args = m.get_args(y, t).to_dict()
                rhs = list(m.get_right_hand_side(y, t).to_numpy())
            except Exception as e:  # noqa: BLE001
                # undefined in Python (division by zero ...): acceptable only where the spec is undefined too
                if all(to_fraction(v) is not None for v in fn_to_dict(out["args"]).values()):
                    bad = {"what": "oracle: model raised where the specification has values", "exception": str(e)[:100]}
                continue
            for k, v in fn_to_dict(out["args"]).items():
                f = to_fraction(v)
                if f is None:
                    n_skip += 1
                    continue
                n_vals += 1
                if k not in args or not close(float(f), args[k]):
                    bad = {"what": "oracle: get_args", "name": k, "expected": str(f), "observed": args.get(k), "t": t, "y": y}
            if what == "C01":
                for j, v in enumerate(out["rhs"]):
                    f = to_fraction(v)
                    if f is None:
                        n_skip += 1
                        continue
                    n_vals += 1
                    if not close(float(f), rhs[j]):
                        bad = {"what": "oracle: get_right_hand_side", "position": j, "expected": str(f),
                               "observed": float(rhs[j]), "t": t, "y": y}
        if bad:
            rep.mismatch(scn, bad, None)
        else:
            rep.traces += 1
    rep.notes["oracle_models"] = [c[0] for c in cases]
    rep.notes["oracle_models_not_encodable"] = skipped
    if what == "C12":
        rep.notes["oracle_conversions_refused"] = n_refused
    rep.notes["oracle_values_compared"] = n_vals
    rep.notes["oracle_values_declined_by_rational_guard"] = n_skip
    if n_vals < 100:
        raise MachineryError(f"oracle compared only {n_vals} values")
