\* termination (liveness) on the smaller universe, no state constraint
CONSTANTS
    Comps = {"a", "s"}
    MaxReq = 3
    Shortcut = "raise"
    EmitOn = FALSE
SPECIFICATION Spec
PROPERTY Terminates
INVARIANT OkIsRight
CHECK_DEADLOCK FALSE
