\* C20 ensemble / carousel fits: a wrapper that does not pass `resid` on: Forwards must fail
CONSTANTS
    Kinds = {"tc", "ptc", "ssc"}
    Dropped = "resid"
    EmitOn = FALSE
INIT Init
NEXT Next
INVARIANT Forwards
CHECK_DEADLOCK FALSE
