\* C15: the same wrong rule on exponential growth that overflows within the budget (inf - inf): TLC must find growth
\* reported as a steady state
CONSTANTS
    MaxSteps = 1000
    Loop = "copy"
    Family = "grow"
    Tier = "quick"
    NanRule = "converged"
    FluxRule = "segment"
    ScanNorm = "asked"
    Reporter = "contract"
    EmitOn = FALSE
INIT Init
NEXT Next
INVARIANT AccumFails
CHECK_DEADLOCK FALSE
