"""Helpers shared by the SBML checks C08 (spec/SbmlRoundTrip.tla) and C17 (spec/SbmlDoc.tla).

* isolation: ``sbml.read`` writes a generated module to ``Path.home()/.cache/mxlpy/<stem>.py`` and registers it in
  ``sys.modules`` under that stem.  ``isolate_home`` points HOME into the check's scratch directory, every scenario
  uses its own file stem.
* spec content -> real model: the functions of a model are ``[params, e]`` records (e an Expr.tla AST); they are
  rendered with mbt/render.py into one module file per scenario (``inspect.getsource`` needs real files).
* spec document -> SBML file through libsbml's writer API (C17): ``write_doc``.
* comparison of a model's answers with the specification's tables.
"""

from __future__ import annotations

import keyword
import math
import os
from fractions import Fraction
from pathlib import Path

from . import render
from .render import SKIP, UNDEF, Style, from_json_value
from .tlc import fn_to_dict

STYLE = Style(const_prefix="math.")      # Const("pi") -> math.pi
HELPERS = {"hlp": {"params": ["a", "b"], "body": [{"k": "ret", "e": {"k": "sub", "a": {"k": "var", "name": "a"},
                                                                    "b": {"k": "var", "name": "b"}}}]},
           # a USER function that merely has the name of a mathematical one (SbmlRoundTrip.tla: floor(a) = a + 1)
           "floor": {"params": ["a"], "body": [{"k": "ret", "e": {"k": "add", "a": {"k": "var", "name": "a"},
                                                                  "b": {"k": "num", "v": {"n": 1, "d": 1}}}}]}}
# module-level constants of the rendered modules (SbmlRoundTrip.tla FT: K = 3, BIG = 10^10 as an INTEGER literal)
MODULE_CONSTANTS = "\nK = 3.0\nBIG = 10000000000\nNEG = -5000000000\n"
_MODULE_CONST_NAMES = ("K", "BIG", "NEG")


def _bare_constants(x):
    """Const("K") / Const("BIG") are module-level names, not math.<name>: render them as bare names"""
    if isinstance(x, dict):
        if x.get("k") == "const" and x.get("name") in _MODULE_CONST_NAMES:
            return {"k": "var", "name": x["name"]}
        return {k: _bare_constants(v) for k, v in x.items()}
    if isinstance(x, list):
        return [_bare_constants(v) for v in x]
    return x


def isolate_home(work: Path) -> Path:
    home = work / "home"
    (home / ".cache" / "mxlpy").mkdir(parents=True, exist_ok=True)
    os.environ["HOME"] = str(home)
    return home


# ---- names ---------------------------------------------------------------------------------------------
def needs_escape(name: str) -> bool:
    """The name cannot be used verbatim as SBML id *and* Python identifier (shape classifier for C08)."""
    return not (name.isidentifier() and not keyword.iskeyword(name) and name[0].isalpha())


# ---- values ----------------------------------------------------------------------------------------------
def val(v):
    """TLC JSON value -> float | SKIP | UNDEF."""
    x = from_json_value(v)
    if x is SKIP or x is UNDEF:
        return x
    return float(x)


def frac(v) -> Fraction:
    x = from_json_value(v)
    assert isinstance(x, Fraction), v
    return x


def table(t) -> dict:
    return {k: val(v) for k, v in fn_to_dict(t).items()}


def close(a, b, tol=1e-9) -> bool:
    try:
        a = float(a)
        b = float(b)
    except (TypeError, ValueError):
        return False
    if math.isnan(a) or math.isnan(b) or math.isinf(a) or math.isinf(b):
        return False
    return abs(a - b) <= tol * max(1.0, abs(a), abs(b))


def finite(x) -> bool:
    try:
        x = float(x)
    except (TypeError, ValueError):
        return False
    return not (math.isnan(x) or math.isinf(x))


# ---- content (MxlModel records with [params, e] functions) -------------------------------------------------
def norm_content(c: dict) -> dict:
    c = dict(c)
    for k in ("init", "pars", "der", "rxn"):
        c[k] = fn_to_dict(c.get(k, {}))
    for r in c["rxn"].values():
        r["st"] = fn_to_dict(r["st"])
    return c


def functions_of(c: dict) -> tuple[dict, dict]:
    """(python function name -> {"params", "body"}, use site -> python function name).

    Use sites: ("iv", name) ("ip", name) ("der", name) ("rxn", name) ("st", reaction, variable).  Equal function
    records (same parameters, same expression) are rendered ONCE: the components share one Python function, as in
    hand-written models (`def f(s, p, k)` used by two reactions with different argument lists)."""
    import json

    fns: dict = {}
    by_record: dict = {}
    site: dict = {}

    def add(tag: str, where: tuple, f: dict):
        body = list(f.get("body") or [{"k": "ret", "e": f["e"]}])     # what Python runs (PyFn statements)
        key = json.dumps([list(f["params"]), body], sort_keys=True)
        if key not in by_record:
            by_record[key] = tag
            fns[tag] = {"params": list(f["params"]), "body": _bare_constants(body)}
        site[where] = by_record[key]

    for j, (n, v) in enumerate(c["init"].items()):
        if v["k"] == "ia":
            add(f"f_iv{j}", ("iv", n), v["fn"])
    for j, (n, v) in enumerate(c["pars"].items()):
        if v["k"] == "ia":
            add(f"f_ip{j}", ("ip", n), v["fn"])
    for j, (n, d) in enumerate(c["der"].items()):
        add(f"f_d{j}", ("der", n), d["fn"])
    for j, (n, r) in enumerate(c["rxn"].items()):
        add(f"f_r{j}", ("rxn", n), r["fn"])
        for m, (v, co) in enumerate(r["st"].items()):
            if co["k"] == "calc":
                add(f"f_r{j}_s{m}", ("st", n, v), co["fn"])
    return fns, site


def multi_statement(f: dict) -> bool:
    body = f.get("body")
    return bool(body) and not (len(body) == 1 and body[0]["k"] == "ret")


def shared_functions(c: dict) -> list:
    """use sites that share a Python function with another site but pass different argument lists"""
    _, site = functions_of(c)

    def args_of(w):
        if w[0] == "iv":
            return c["init"][w[1]]["args"]
        if w[0] == "ip":
            return c["pars"][w[1]]["args"]
        if w[0] == "der":
            return c["der"][w[1]]["args"]
        if w[0] == "rxn":
            return c["rxn"][w[1]]["args"]
        return c["rxn"][w[1]]["st"][w[2]]["args"]

    groups: dict = {}
    for w, fn in site.items():
        groups.setdefault(fn, []).append(w)
    return [[list(w) for w in ws] for ws in groups.values()
            if len({tuple(args_of(w)) for w in ws}) > 1]


def build_model(c: dict, moddir: Path, modname: str):
    """Render the functions into ``moddir/modname.py`` and build the real model (declaration order: variables,
    parameters, derived, reactions)."""
    from mxlpy import Model
    from mxlpy.types import Derived, InitialAssignment

    fns, site = functions_of(c)
    src = render.module_src({**HELPERS, **fns}, style=STYLE) + MODULE_CONSTANTS
    render.write_module(moddir, modname, src)
    mod = render.load_module(moddir, modname)
    fn = lambda *w: getattr(mod, site[w])  # noqa: E731
    m = Model()
    for n in c["vars"]:
        v = c["init"][n]
        if v["k"] == "ia":
            m.add_variable(n, InitialAssignment(fn=fn("iv", n), args=list(v["args"])))
        else:
            m.add_variable(n, float(frac(v["v"])))
    for n, v in c["pars"].items():
        if v["k"] == "ia":
            m.add_parameter(n, InitialAssignment(fn=fn("ip", n), args=list(v["args"])))
        else:
            m.add_parameter(n, float(frac(v["v"])))
    for n, d in c["der"].items():
        m.add_derived(n, fn("der", n), args=list(d["args"]))
    for n, r in c["rxn"].items():
        st = {}
        for v, co in r["st"].items():
            if co["k"] == "num":
                st[v] = float(frac(co["v"]))
            elif co["fn"]["e"] == {"k": "var", "name": "a"} and len(co["args"]) == 1:
                st[v] = co["args"][0]        # the named form of the public API
            else:
                st[v] = Derived(fn=fn("st", n, v), args=list(co["args"]))
        m.add_reaction(n, fn("rxn", n), args=list(r["args"]), stoichiometry=st)
    return m, src


def observe(m, names_y: list[str], y: dict, t: float) -> dict:
    """args / fluxes / rhs of a real model at (y, t) as plain dicts."""
    yy = {n: float(y[n]) for n in names_y}
    return {"args": {k: float(v) for k, v in m.get_args(yy, t).to_dict().items()},
            "fluxes": {k: float(v) for k, v in m.get_fluxes(yy, t).to_dict().items()},
            "rhs": {k: float(v) for k, v in m.get_right_hand_side(yy, t).to_dict().items()}}


def cmp_tables(expected: dict, observed: dict, what: str) -> dict | None:
    """Every expected name present with the expected number; extra names are allowed."""
    for n, v in expected.items():
        if n not in observed:
            return {"what": what, "name": n, "expected": v, "observed": "absent"}
        if not close(v, observed[n]):
            return {"what": what, "name": n, "expected": v, "observed": observed[n]}
    return None


# ---- C17: abstract document (spec/SbmlDoc.tla JSON) -> SBML file through libsbml's writer API ---------------------
_REL = {"lt": "AST_RELATIONAL_LT", "le": "AST_RELATIONAL_LEQ", "gt": "AST_RELATIONAL_GT", "ge": "AST_RELATIONAL_GEQ",
        "eq": "AST_RELATIONAL_EQ", "ne": "AST_RELATIONAL_NEQ"}
_BIN = {"add": "AST_PLUS", "sub": "AST_MINUS", "mul": "AST_TIMES", "div": "AST_DIVIDE", "pow": "AST_POWER"}
_FN = {"exp": "AST_FUNCTION_EXP", "log": "AST_FUNCTION_LN", "sqrt": "AST_FUNCTION_ROOT", "sin": "AST_FUNCTION_SIN",
       "cos": "AST_FUNCTION_COS", "tanh": "AST_FUNCTION_TANH", "floor": "AST_FUNCTION_FLOOR", "ceil": "AST_FUNCTION_CEILING"}


def ast_of(e: dict, flatten: bool = False):
    """Expr.tla AST (JSON) -> libsbml.ASTNode.  Only constructs whose SBML meaning equals Expr's are accepted."""
    import libsbml

    def node(typ, *kids):
        n = libsbml.ASTNode(getattr(libsbml, typ))
        for k in kids:
            n.addChild(k)
        return n

    r = lambda x: ast_of(x, flatten)  # noqa: E731
    k = e["k"]
    if k == "num":
        fr = frac(e["v"])
        if fr.denominator == 1:
            n = libsbml.ASTNode(libsbml.AST_INTEGER)
            n.setValue(int(fr.numerator))
            return n
        n = libsbml.ASTNode(libsbml.AST_RATIONAL)
        n.setValue(int(fr.numerator), int(fr.denominator))
        return n
    if k == "bool":
        return libsbml.ASTNode(libsbml.AST_CONSTANT_TRUE if e["val"] else libsbml.AST_CONSTANT_FALSE)
    if k == "var":
        if e["name"] == "time":
            n = libsbml.ASTNode(libsbml.AST_NAME_TIME)
            n.setName("time")
            return n
        n = libsbml.ASTNode(libsbml.AST_NAME)
        n.setName(e["name"])
        return n
    if k == "const" and e["name"] == "pi":
        return libsbml.ASTNode(libsbml.AST_CONSTANT_PI)
    if k == "neg":
        return node("AST_MINUS", r(e["a"]))
    if k == "abs":
        return node("AST_FUNCTION_ABS", r(e["a"]))
    if k == "not":
        return node("AST_LOGICAL_NOT", r(e["a"]))
    if k in _BIN:
        return node(_BIN[k], r(e["a"]), r(e["b"]))
    if k in ("min", "max"):
        return node("AST_FUNCTION_MIN" if k == "min" else "AST_FUNCTION_MAX", *[r(x) for x in e["args"]])
    if k in ("and", "or"):
        return node("AST_LOGICAL_AND" if k == "and" else "AST_LOGICAL_OR", *[r(x) for x in e["args"]])
    if k == "cmp":
        if len(e["ops"]) != 1:
            raise ValueError("chained comparisons are not part of the document family")
        return node(_REL[e["ops"][0]], r(e["args"][0]), r(e["args"][1]))
    if k == "ite":
        # piecewise(value, condition, ..., otherwise); a nested else-branch may be flattened into further pieces
        kids = [r(e["a"]), r(e["c"])]
        rest = e["b"]
        while flatten and rest["k"] == "ite":
            kids += [r(rest["a"]), r(rest["c"])]
            rest = rest["b"]
        kids.append(r(rest))
        return node("AST_FUNCTION_PIECEWISE", *kids)
    if k == "call":
        n = libsbml.ASTNode(libsbml.AST_FUNCTION)
        n.setName(e["name"])
        for x in e["args"]:
            n.addChild(r(x))
        return n
    if k == "fn":
        return node(_FN[e["name"]], *[r(x) for x in e["args"]])
    raise ValueError(f"expression tag {k!r} has no unambiguous SBML counterpart")


def _ok(rc, what: str):
    import libsbml

    if rc != libsbml.LIBSBML_OPERATION_SUCCESS:
        raise RuntimeError(f"libsbml refused {what}: {rc}")


def write_doc(doc: dict, path: Path, flatten: bool = False) -> Path:
    """Render the abstract document with libsbml (level 3 version 2).  Raises if libsbml reports an error."""
    import libsbml

    d = libsbml.SBMLDocument(3, 2)
    m = d.createModel()
    _ok(m.setId("doc"), "model id")
    for cid, c in fn_to_dict(doc["comps"]).items():
        x = m.createCompartment()
        _ok(x.setId(cid), f"compartment id {cid}")
        x.setConstant(True)
        x.setSize(float(frac(c["size"])))
        x.setSpatialDimensions(3)
    for s in doc["species"]:
        x = m.createSpecies()
        _ok(x.setId(s["id"]), f"species id {s['id']}")
        x.setCompartment(s["comp"])
        x.setHasOnlySubstanceUnits(False)
        x.setBoundaryCondition(bool(s["boundary"]))
        x.setConstant(bool(s["constant"]))
        x.setInitialConcentration(float(frac(s["init"])))
    for pid, p in fn_to_dict(doc["pars"]).items():
        x = m.createParameter()
        _ok(x.setId(pid), f"parameter id {pid}")
        x.setConstant(bool(p["constant"]))
        x.setValue(float(frac(p["v"])))
    for fid, f in fn_to_dict(doc["fundefs"]).items():
        x = m.createFunctionDefinition()
        _ok(x.setId(fid), f"function id {fid}")
        lam = libsbml.ASTNode(libsbml.AST_LAMBDA)
        for prm in f["params"]:
            n = libsbml.ASTNode(libsbml.AST_NAME)
            n.setName(prm)
            lam.addChild(n)
        lam.addChild(ast_of(f["e"], flatten))
        _ok(x.setMath(lam), f"function body {fid}")
    for sym, e in fn_to_dict(doc["ias"]).items():
        x = m.createInitialAssignment()
        _ok(x.setSymbol(sym), f"initial assignment {sym}")
        _ok(x.setMath(ast_of(e, flatten)), f"initial assignment math {sym}")
    for var, e in fn_to_dict(doc["rules"]).items():
        x = m.createAssignmentRule()
        _ok(x.setVariable(var), f"rule {var}")
        _ok(x.setMath(ast_of(e, flatten)), f"rule math {var}")
    for rid, r in fn_to_dict(doc["rxns"]).items():
        x = m.createReaction()
        _ok(x.setId(rid), f"reaction id {rid}")
        x.setReversible(False)
        for side, mk in (("reactants", x.createReactant), ("products", x.createProduct)):
            for sr in r[side]:
                y = mk()
                y.setSpecies(sr["species"])
                if sr["st"]["k"] == "num":
                    y.setStoichiometry(float(frac(sr["st"]["v"])))
                    y.setConstant(True)
                else:
                    _ok(y.setId(sr["st"]["id"]), f"species reference id {sr['st']['id']}")
                    y.setConstant(False)
        for mod in r.get("modifiers", []):
            y = x.createModifier()
            y.setSpecies(mod)
        kl = x.createKineticLaw()
        _ok(kl.setMath(ast_of(r["kl"], flatten)), f"kinetic law {rid}")
    d.checkInternalConsistency()
    errs = [d.getError(j).getMessage() for j in range(d.getNumErrors())
            if d.getError(j).getSeverity() >= libsbml.LIBSBML_SEV_ERROR]
    if errs:
        raise RuntimeError(f"libsbml reports errors for the rendered document: {errs[:3]}")
    path.parent.mkdir(parents=True, exist_ok=True)
    if not libsbml.writeSBMLToFile(d, str(path)):
        raise RuntimeError("libsbml could not write the document")
    return path
