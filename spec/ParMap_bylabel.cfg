\* C09: implementation-shaped wrong instance "results looked up by label" with repeated row labels (rows 1 and 3 share a label): must VIOLATE RowIndependent
CONSTANTS
    Ns = {3}
    Ws = {1}
    Modes = {"par"}
    Variants = {"plain"}
    ColSets = {{"k"}}
    Kinds = {"time_course"}
    FailModes = {"intfail"}
    LabelSchemes = {"repeated"}
    KeyedByLabel = TRUE
    NameSchemes = {"plain"}
    Y0s = {0}
    Y0Again = FALSE
    MaxDur = 1
    SharedInSeq = FALSE
    Timed = FALSE
    Fifo = TRUE
    EmitOn = FALSE
INIT Init
NEXT Next
INVARIANT RowIndependent
INVARIANT Aligned
INVARIANT FailedIsNaN
INVARIANT Bounded
INVARIANT CallerUntouched
INVARIANT Emit
CHECK_DEADLOCK TRUE
