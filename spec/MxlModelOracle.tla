--------------------------- MODULE MxlModelOracle ---------------------------
(***************************************************************************)
(* code -> spec for C01 / C13 on models nobody enumerated: the example     *)
(* models shipped with MxlPy and the repository's test models are encoded  *)
(* (mbt/modelenc.py) into MxlModel content whose functions are PyFn ASTs   *)
(* produced from the real Python source by mbt/pyenc.py.  MxlModel is      *)
(* instantiated over exact rationals with Apply = the big-step semantics   *)
(* Run of the function's body, and TLC prints the full table and the       *)
(* right-hand side at every requested state.  One case per TLC run (the    *)
(* case must be a constant for the instantiation).                         *)
(* A value the rational guard declines (Skip) or that is undefined (Undef) *)
(* is printed as such and never judged by the harness.                     *)
(***************************************************************************)
EXTENDS PyFn, TLC, Json, IOUtils

Case == JsonDeserialize(IOEnv.CASE_FILE)

RApply(fn, a) ==
    LET f == Case.ft[fn]
        r == Run(f.body, ArgEnv(f.params, a), Case.ft)
    IN IF r.st = "ret" THEN r.v ELSE IF r.st = "skip" THEN Skip ELSE Undef

MR == INSTANCE MxlModel WITH Apply <- RApply, VAdd <- RAdd, VMul <- RMul, VZero <- Zero

VARIABLE done
Init == done = FALSE
Next == UNCHANGED done

C == Case.c
PointOut(p) ==
    [args |-> [n \in MR!Reported(C) |-> MR!ArgsAt(C, p.y, p.t)[n]],
     rhs  |-> MR!Rhs(C, p.y, p.t)]

Answer ==
    PrintT("@J@" \o ToJson(
        [id |-> Case.id,
         kinds |-> MR!OutcomeKinds(C),
         init |-> IF MR!WellFormed(C) THEN MR!InitialValues(C) ELSE <<>>,
         static |-> IF MR!WellFormed(C) THEN MR!Static(C) ELSE {},
         pts |-> IF MR!WellFormed(C) THEN [j \in DOMAIN Case.pts |-> PointOut(Case.pts[j])] ELSE <<>>]) \o "@E@")
=============================================================================
