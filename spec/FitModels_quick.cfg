\* C20 residual scenarios (quick): chain of <= 2, <= 2 pools, one protocol pool
CONSTANTS
    Shapes = {"ss", "ssc", "tc", "ptc"}
    MaxChain = 2
    MaxPools = 2
    Rich = FALSE
    EmitOn = TRUE
INIT Init
NEXT Next
INVARIANT ZeroAtTruth
INVARIANT SymmetricAgree
INVARIANT Emit
CHECK_DEADLOCK FALSE
