\* C15: the implementation-shaped WRONG loop of the pinned commit (y1 aliases the integrator's output buffer):
\* TLC must find a "success" far from the steady state (relaxing networks)
CONSTANTS
    MaxSteps = 1000
    Loop = "alias"
    Family = "relax"
    Tier = "quick"
    NanRule = "notconverged"
    FluxRule = "segment"
    ScanNorm = "asked"
    Reporter = "contract"
    EmitOn = FALSE
INIT Init
NEXT Next
INVARIANT SuccessIsSteady
CHECK_DEADLOCK FALSE
