\* C04 (thorough tier): every call history of depth 4 over the reduced menu (17 operations); properties checked at every reachable state
CONSTANTS
    Depth = 4
    EmitOn = TRUE
    Variant = "contract"
    MenuName = "c04small"
INIT Init
NEXT Next
INVARIANT AxisIncreasing
INVARIANT RefusalIff
INVARIANT PointsOnce
INVARIANT SegChain
INVARIANT NowIsLast
INVARIANT Bystander
INVARIANT StepIntervals
INVARIANT ProtocolIsComposition
INVARIANT FailedFrozen
INVARIANT Emit
CHECK_DEADLOCK FALSE
