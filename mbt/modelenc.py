"""Encoding a real mxlpy.Model into MxlModel content over exact rationals with PyFn function bodies
(for spec/MxlModelOracle.tla).  Raises NotEncodable for models outside what the specification expresses."""

from __future__ import annotations

from fractions import Fraction

from . import pyenc


class NotEncodable(Exception):
    pass


def rat(x) -> dict:
    f = Fraction(repr(float(x))) if not isinstance(x, Fraction) else x
    if abs(f.numerator) >= 2**20 or f.denominator >= 2**20:
        raise NotEncodable(f"number outside the rational guard: {x}")
    return {"n": f.numerator, "d": f.denominator}


class Encoder:
    def __init__(self):
        self.ft: dict = {}
        self.names: dict = {}   # id(fn) -> name in ft

    def fn(self, f) -> str:
        if id(f) in self.names:
            return self.names[id(f)]
        try:
            enc = pyenc.encode_function(f)
        except pyenc.OutsideSubset as e:
            raise NotEncodable(f"function {getattr(f, '__name__', f)}: {e}") from e
        except Exception as e:  # noqa: BLE001  (no source, lambda, builtins ...)
            raise NotEncodable(f"function {getattr(f, '__name__', f)}: {type(e).__name__}: {e}") from e
        name = enc["name"]
        if not name.isidentifier():
            raise NotEncodable(f"function name {name}")
        entry = {"k": "fn", "params": enc["params"], "body": enc["body"]}
        if name in self.ft and self.ft[name] != entry:
            raise NotEncodable(f"two different functions called {name}")
        for k, v in enc["ft"].items():
            if k in self.ft and self.ft[k] != v:
                raise NotEncodable(f"two different global names {k}")
            self.ft[k] = v
        self.ft[name] = entry
        self.names[id(f)] = name
        return name

    def value(self, v):
        from mxlpy.types import InitialAssignment

        if isinstance(v, InitialAssignment):
            return {"k": "ia", "fn": self.fn(v.fn), "args": list(v.args)}
        return {"k": "num", "v": rat(v)}

    def coef(self, c):
        from mxlpy.types import Derived

        if isinstance(c, Derived):
            return {"k": "calc", "fn": self.fn(c.fn), "args": list(c.args)}
        return {"k": "num", "v": rat(c)}

    def model(self, m) -> dict:
        if m.get_raw_surrogates(as_copy=False) or m._data:  # noqa: SLF001
            raise NotEncodable("surrogates / data sets")
        c = {"vars": list(m.get_variable_names()), "init": {}, "pars": {}, "der": {}, "rxn": {}, "sur": {}, "ro": {},
             "data": {}}
        for n, v in m.get_raw_variables(as_copy=False).items():
            c["init"][n] = self.value(v.initial_value)
        for n, p in m.get_raw_parameters(as_copy=False).items():
            c["pars"][n] = self.value(p.value)
        for n, d in m.get_raw_derived(as_copy=False).items():
            c["der"][n] = {"fn": self.fn(d.fn), "args": list(d.args)}
        for n, r in m.get_raw_reactions(as_copy=False).items():
            c["rxn"][n] = {"fn": self.fn(r.fn), "args": list(r.args),
                           "st": {v: self.coef(co) for v, co in r.stoichiometry.items()}}
        return c


def to_fraction(v) -> Fraction | None:
    """A rational printed by TLC ({n, d}); None for Undef / Skip."""
    if not isinstance(v, dict) or v.get("d", 0) <= 0:
        return None
    return Fraction(v["n"], v["d"])
