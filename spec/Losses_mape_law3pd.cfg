\* C20: the laws fix the argument order of the residual: prediction-first, the percentage loss scores a prediction c times too large BETTER than one c times too small: counterexample expected
CONSTANTS
    LossNames = {"mean_absolute_percentage"}
    Orients = {"pd"}
    N = 2
    Grid = "pos"
    EmitOn = FALSE
INIT Init
NEXT Next
INVARIANT Law3Swapped
CHECK_DEADLOCK FALSE
