---------------------------- MODULE LabelExpand ----------------------------
(***************************************************************************)
(* C05 (and the basis of C16) -- what "the isotopomer expansion of a base  *)
(* model" IS, as a set-theoretic definition with no variables.             *)
(*                                                                         *)
(* Base content b (all numbers integers):                                  *)
(*   cpds : Seq(name)        variables in declaration order                *)
(*   nl   : [name -> Nat]    label positions per variable (0 = unlabelled) *)
(*   init : [name -> Int]    base initial amounts                          *)
(*   pars : [name -> Int]                                                  *)
(*   der  : [name -> [fn : {"sum","prod"}, args : Seq(name)]]              *)
(*          derived quantities over variables / parameters                 *)
(*   rxns : Seq([name, subs, prods, args, mapped, map])                    *)
(*          subs / prods: the base stoichiometry unpacked in order, one    *)
(*          entry per unit; args: rate arguments; rate = product of the    *)
(*          argument values (mass action: the substrates, one mention per  *)
(*          unit, and a rate constant); map: the atom-transition map with  *)
(*          the API's 0-based entries; mapped = FALSE: not in label_maps.  *)
(*                                                                         *)
(* Reading of a map (the documented one, "DHAP(1) is built from GAP(3)"    *)
(* for TPIf = [2,1,0]): PRODUCT position i carries the label of SUBSTRATE  *)
(* position map[i]; positions are counted along the substrates (products)  *)
(* in order; source positions beyond the substrates' atoms are external    *)
(* atoms and enter labelled.                                               *)
(***************************************************************************)
EXTENDS Integers, Sequences, FiniteSets, TLC, FiniteSetsExt, Functions

SumSeq(s)  == FoldFunction(+, 0, s)
ProdSeq(s) == FoldFunction(LAMBDA x, acc : x * acc, 1, s)
Ones(n)    == [i \in 1..n |-> 1]
Count(seq, x)    == Cardinality({j \in DOMAIN seq : seq[j] = x})
OccIndex(seq, j) == Cardinality({i \in 1..j : seq[i] = seq[j]})         \* seq[j] is the OccIndex-th mention of its value
NthOcc(seq, x, k) == CHOOSE i \in DOMAIN seq : seq[i] = x /\ OccIndex(seq, i) = k

RevSeq(s) == [i \in 1..Len(s) |-> s[Len(s) + 1 - i]]
\* Presentation orders of a base model that are NOT part of its meaning except through the numbering of atom
\* positions: "swap" writes the compounds of every reaction side in the opposite order (so a merge A + B -> C is
\* declared as B + A -> C: positions are counted along B first), "rev" declares variables and reactions in the
\* opposite order, "swaprev" does both.  t: a record with cpds and rxns (and whatever else).
Reorder(t, ord) ==
    LET sw == ord \in {"swap", "swaprev"}
        rv == ord \in {"rev", "swaprev"}
        rx == [j \in DOMAIN t.rxns |->
                 IF sw THEN [t.rxns[j] EXCEPT !.subs = RevSeq(@), !.prods = RevSeq(@)] ELSE t.rxns[j]]
    IN [t EXCEPT !.cpds = IF rv THEN RevSeq(@) ELSE @, !.rxns = IF rv THEN RevSeq(rx) ELSE rx]

RECURSIVE Pow2(_)
Pow2(n) == IF n = 0 THEN 1 ELSE 2 * Pow2(n - 1)

RECURSIVE BitStr(_)
BitStr(bits) == IF Len(bits) = 0 THEN "" ELSE ToString(Head(bits)) \o BitStr(Tail(bits))

Patterns(n) == [1..n -> {0, 1}]                      \* all labelling patterns of n positions, as sequences
IsoName(c, bits) == IF Len(bits) = 0 THEN c ELSE c \o "__" \o BitStr(bits)
TotName(c) == c \o "__total"

CpdSet(b)   == Range(b.cpds)
Labelled(b) == {c \in CpdSet(b) : b.nl[c] > 0}

\* the variables of the labelled model, with the compound they belong to
IsoIndex(b) == UNION {{[n |-> IsoName(c, bits), c |-> c, bits |-> bits] : bits \in Patterns(b.nl[c])} : c \in CpdSet(b)}
IsoNames(b) == {rec.n : rec \in IsoIndex(b)}

(***************************************************************************)
(* One mapped reaction                                                     *)
(***************************************************************************)
LabelsPer(b, cs) == [j \in 1..Len(cs) |-> b.nl[cs[j]]]
Tot(b, cs)       == SumSeq(LabelsPer(b, cs))
Off(b, cs, j)    == SumSeq(SubSeq(LabelsPer(b, cs), 1, j - 1))
SLab(b, r) == Tot(b, r.subs)
PLab(b, r) == Tot(b, r.prods)
NExt(b, r) == IF PLab(b, r) > SLab(b, r) THEN PLab(b, r) - SLab(b, r) ELSE 0
NSrc(b, r) == SLab(b, r) + NExt(b, r)                \* = max(S, P): the source positions a map may name

\* "a map shorter than the substrates' atoms is rejected"
Accepted(b, r) == Len(r.map) >= SLab(b, r)
\* the maps for which the statement defines the expansion
Proper(b, r) == /\ Accepted(b, r)
                /\ Len(r.map) >= PLab(b, r)
                /\ \A i \in 1..PLab(b, r) : r.map[i] \in 0..(NSrc(b, r) - 1)

Full(b, r, s)     == s \o Ones(NExt(b, r))
ProdBits(b, r, s) == [i \in 1..PLab(b, r) |-> Full(b, r, s)[r.map[i] + 1]]
Piece(bits, off, n) == SubSeq(bits, off + 1, off + n)

SubIsoNames(b, r, s) ==
    [j \in 1..Len(r.subs) |-> IsoName(r.subs[j], Piece(s, Off(b, r.subs, j), b.nl[r.subs[j]]))]
ProdIsoNames(b, r, s) ==
    [j \in 1..Len(r.prods) |-> IsoName(r.prods[j], Piece(ProdBits(b, r, s), Off(b, r.prods, j), b.nl[r.prods[j]]))]

\* one unit of base stoichiometry = one isotopomer consumed / produced; equal names accumulate
Repack(ss, ps) == [n \in Range(ss) \cup Range(ps) |-> Count(ps, n) - Count(ss, n)]

(***************************************************************************)
(* Rate arguments of the isotopomer reaction for pattern s.  A mention of  *)
(* a substrate is replaced by the isotopomer consumed for it; when a       *)
(* compound is consumed several times, its j-th mention stands for its     *)
(* j-th unit ("occurrence").  mode = "last" is the shape of the pinned     *)
(* implementation (a dict keyed by base name: every mention receives the   *)
(* isotopomer of the LAST unit); TLC shows below that it breaks SumRule.   *)
(***************************************************************************)
RenameArgs(b, r, s, mode) ==
    [j \in 1..Len(r.args) |->
        LET a == r.args[j] IN
        IF a \in Range(r.subs)
        THEN LET n == Count(r.subs, a)
                 k == IF mode = "occurrence" THEN ((OccIndex(r.args, j) - 1) % n) + 1 ELSE n
             IN SubIsoNames(b, r, s)[NthOcc(r.subs, a, k)]
        \* a rate that reads its own tracked PRODUCT (reversible mass action, product inhibition): the statement does not say
        \* which name of the labelled model stands for it -- "?B" means: any isotopomer of B or its total, but a name of the
        \* labelled model (the base name B no longer exists there)
        ELSE IF a \in Range(r.prods) /\ a \in Labelled(b) THEN "?" \o a
        ELSE a]
\* cases whose rates the specification cannot evaluate (it is silent about the product's stand-in)
HasWild(b) == \E j \in DOMAIN b.rxns : b.rxns[j].mapped /\
                 \E i \in DOMAIN b.rxns[j].args : b.rxns[j].args[i] \in Range(b.rxns[j].prods) /\ b.rxns[j].args[i] \in Labelled(b)

IsoRxn(b, r, s, mode) ==
    [name |-> r.name \o "__" \o BitStr(Full(b, r, s)),
     st   |-> Repack(SubIsoNames(b, r, s), ProdIsoNames(b, r, s)),
     args |-> RenameArgs(b, r, s, mode)]

IsoRxns(b, r, mode) == {IsoRxn(b, r, s, mode) : s \in Patterns(SLab(b, r))}

\* a reaction without a map stays one reaction on the totals
PlainRxn(b, r) ==
    [name |-> r.name,
     st   |-> Repack(r.subs, r.prods),
     args |-> [j \in 1..Len(r.args) |-> IF r.args[j] \in Labelled(b) THEN TotName(r.args[j]) ELSE r.args[j]]]

Mapped(b)   == {j \in DOMAIN b.rxns : b.rxns[j].mapped}
Unmapped(b) == DOMAIN b.rxns \ Mapped(b)

Outcome(b) == IF \A j \in Mapped(b) : Accepted(b, b.rxns[j]) THEN "ok" ELSE "rejected"
AllProper(b) == \A j \in Mapped(b) : Proper(b, b.rxns[j])

LabelledRxns(b, mode) ==
    UNION {IsoRxns(b, b.rxns[j], mode) : j \in Mapped(b)} \cup {PlainRxn(b, b.rxns[j]) : j \in Unmapped(b)}

(***************************************************************************)
(* Initial placement.  req[c] = [k |-> "none"] or [k |-> "int"|"list",     *)
(* ps |-> Seq(0-based positions)]: the whole base amount goes into the     *)
(* isotopomer labelled exactly at the requested positions (none: nowhere). *)
(***************************************************************************)
ReqBits(n, rq) == [i \in 1..n |-> IF rq.k # "none" /\ (i - 1) \in Range(rq.ps) THEN 1 ELSE 0]
LInit(b, req) ==
    LET idx == IsoIndex(b)
    IN [n \in {rec.n : rec \in idx} |->
          LET rec == CHOOSE x \in idx : x.n = n
          IN IF rec.bits = ReqBits(b.nl[rec.c], req[rec.c]) THEN b.init[rec.c] ELSE 0]

(***************************************************************************)
(* Values.  y : [IsoNames(b) -> Int] is a state of the labelled model.     *)
(***************************************************************************)
\* (idx = IsoIndex(b) is passed around: TLC does not memoise operator applications)
TotalOfI(idx, y, c) == FoldSet(LAMBDA rec, acc : acc + (IF rec.c = c THEN y[rec.n] ELSE 0), 0, idx)
TotalOf(b, y, c) == TotalOfI(IsoIndex(b), y, c)
Totals(b, y) == LET idx == IsoIndex(b) IN [c \in CpdSet(b) |-> TotalOfI(idx, y, c)]

\* base model at a base state t : [CpdSet -> Int]
DerValue(b, t, d) ==
    LET dd == b.der[d]
        vals == [j \in DOMAIN dd.args |-> IF dd.args[j] \in DOMAIN t THEN t[dd.args[j]] ELSE b.pars[dd.args[j]]]
    IN IF dd.fn = "sum" THEN SumSeq(vals) ELSE ProdSeq(vals)
BVal(b, t, a) == IF a \in DOMAIN t THEN t[a] ELSE IF a \in DOMAIN b.pars THEN b.pars[a] ELSE DerValue(b, t, a)
BRate(b, t, r) == ProdSeq([j \in DOMAIN r.args |-> BVal(b, t, r.args[j])])
BNet(r) == Repack(r.subs, r.prods)
\* An UNMAPPED reaction may carry the optional field den: its coefficients are the unit counts divided by den
\* (S -> 0.5 W + 1.5 V is subs <<S, S>>, prods <<W, V, V, V>>, den 4 ... or units over den = 2); the content is chosen
\* so that every rate of such a reaction is a multiple of den and all derivatives stay integers.
Den(r) == IF "den" \in DOMAIN r THEN r.den ELSE 1
BRhs(b, t) ==
    [c \in CpdSet(b) |->
        SumSeq([j \in DOMAIN b.rxns |->
                  IF c \in DOMAIN BNet(b.rxns[j])
                  THEN (BNet(b.rxns[j])[c] * BRate(b, t, b.rxns[j])) \div Den(b.rxns[j]) ELSE 0])]

\* labelled model: isotopomers and unlabelled variables from y, everything else at the totals
LArgVal(b, y, tt, a) == IF a \in DOMAIN y THEN y[a] ELSE BVal(b, tt, a)
LRate(b, y, tt, ir)  == ProdSeq([j \in DOMAIN ir.args |-> LArgVal(b, y, tt, ir.args[j])])

\* d(isotopomer)/dt: every isotopomer reaction at its own rate, unmapped reactions at the totals
LRhs(b, y, mode) ==
    LET tt    == Totals(b, y)
        isos  == UNION {IsoRxns(b, b.rxns[j], mode) : j \in Mapped(b)}
        rated == {[name |-> ir.name, st |-> ir.st, v |-> LRate(b, y, tt, ir), den |-> 1] : ir \in isos}
        plain == {[name |-> b.rxns[j].name, st |-> BNet(b.rxns[j]), v |-> BRate(b, tt, b.rxns[j]), den |-> Den(b.rxns[j])] : j \in Unmapped(b)}
        all   == rated \cup plain
    IN [n \in DOMAIN y |->
          FoldSet(LAMBDA x, acc : acc + (IF n \in DOMAIN x.st THEN (x.st[n] * x.v) \div x.den ELSE 0), 0, all)]

(***************************************************************************)
(* Theorems of the definition (checked by TLC on every enumerated content) *)
(***************************************************************************)
\* exactly one isotopomer reaction per labelling pattern of the substrates
CountRule(b, mode) ==
    \A j \in Mapped(b) : Cardinality({ir.name : ir \in IsoRxns(b, b.rxns[j], mode)}) = Pow2(SLab(b, b.rxns[j]))

\* one isotopomer per unit of base stoichiometry: collapsing isotopomer names gives the base stoichiometry
Collapse(idx, st, c) == FoldSet(LAMBDA rec, acc : acc + (IF rec.c = c /\ rec.n \in DOMAIN st THEN st[rec.n] ELSE 0), 0, idx)
UnitRule(b, mode) ==
    LET idx == IsoIndex(b)
        names == {rec.n : rec \in idx}
    IN \A j \in Mapped(b) : \A ir \in IsoRxns(b, b.rxns[j], mode) :
        /\ DOMAIN ir.st \subseteq names
        /\ \A c \in CpdSet(b) : Collapse(idx, ir.st, c) = Count(b.rxns[j].prods, c) - Count(b.rxns[j].subs, c)

\* atom conservation: every labelled source atom (substrate or external) appears in exactly as many
\* product positions as the map names it; for a one-to-one map labelled atoms out = labelled atoms in
Uses(b, r, q) == Cardinality({i \in 1..PLab(b, r) : r.map[i] = q})
AtomRule(b) ==
    \A j \in Mapped(b) : LET r == b.rxns[j] IN \A s \in Patterns(SLab(b, r)) :
        /\ SumSeq(ProdBits(b, r, s)) = SumSeq([q \in 1..NSrc(b, r) |-> Full(b, r, s)[q] * Uses(b, r, q - 1)])
        /\ (\A q \in 0..(NSrc(b, r) - 1) : Uses(b, r, q) = 1) => SumSeq(ProdBits(b, r, s)) = SumSeq(s) + NExt(b, r)

\* the isotopomers of a compound together move like the base compound at the totals
SumRule(b, y, mode) ==
    LET d == LRhs(b, y, mode)
        base == BRhs(b, Totals(b, y))
        idx == IsoIndex(b)
    IN \A c \in CpdSet(b) : TotalOfI(idx, d, c) = base[c]

\* placement keeps the amount of every compound
InitRule(b, req) == LET idx == IsoIndex(b) li == LInit(b, req) IN \A c \in CpdSet(b) : TotalOfI(idx, li, c) = b.init[c]
=============================================================================
