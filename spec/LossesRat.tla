----------------------------- MODULE LossesRat -----------------------------
(***************************************************************************)
(* Exact rationals for the C20 / C18 specifications (private small module: *)
(* spec/Rat.tla did not exist when these checks were built).               *)
(*                                                                         *)
(* A rational is a record [n |-> numerator, d |-> denominator], always     *)
(* normalised: d > 0, gcd(|n|, d) = 1.  TLC integers are 32 bit and TLC    *)
(* raises an error on overflow (never wraps silently), so an enumeration   *)
(* that leaves the safe range stops the run as a machinery failure.        *)
(***************************************************************************)
EXTENDS Integers, Sequences

IAbs(x) == IF x < 0 THEN 0 - x ELSE x

RECURSIVE IGcd(_, _)
IGcd(a, b) == IF b = 0 THEN a ELSE IGcd(b, a % b)

\* normalising constructor (dd # 0)
R(nn, dd) ==
    LET g == IGcd(IAbs(nn), IAbs(dd))
        s == IF dd < 0 THEN 0 - 1 ELSE 1
    IN  [n |-> (s * nn) \div g, d |-> (s * dd) \div g]

RInt(i)  == [n |-> i, d |-> 1]
RZero    == RInt(0)
ROne     == RInt(1)

\* (intermediate products are kept small: common denominators through the gcd, cross-cancellation in products)
RAdd(a, b) == LET g == IGcd(a.d, b.d) IN R(a.n * (b.d \div g) + b.n * (a.d \div g), (a.d \div g) * b.d)
RSub(a, b) == LET g == IGcd(a.d, b.d) IN R(a.n * (b.d \div g) - b.n * (a.d \div g), (a.d \div g) * b.d)
RMul(a, b) == LET g1 == IGcd(IAbs(a.n), b.d)
                  g2 == IGcd(IAbs(b.n), a.d)
              IN  R((a.n \div g1) * (b.n \div g2), (a.d \div g2) * (b.d \div g1))
RNeg(a)    == [n |-> 0 - a.n, d |-> a.d]
RIsZero(a) == a.n = 0
RInv(b)    == IF b.n < 0 THEN [n |-> 0 - b.d, d |-> 0 - b.n] ELSE [n |-> b.d, d |-> b.n]     \* b # 0
RDiv(a, b) == RMul(a, RInv(b))                 \* b # 0
RAbs(a)    == [n |-> IAbs(a.n), d |-> a.d]
RSq(a)     == RMul(a, a)
RSign(a)   == IF a.n > 0 THEN 1 ELSE IF a.n < 0 THEN 0 - 1 ELSE 0

RLe(a, b)  == LET g == IGcd(a.d, b.d) IN a.n * (b.d \div g) <= b.n * (a.d \div g)
RLt(a, b)  == LET g == IGcd(a.d, b.d) IN a.n * (b.d \div g) <  b.n * (a.d \div g)
RGe(a, b)  == RLe(b, a)
RGt(a, b)  == RLt(b, a)
RMax(a, b) == IF RLe(a, b) THEN b ELSE a

RECURSIVE RPow(_, _)
RPow(a, k) == IF k = 0 THEN ROne ELSE RMul(a, RPow(a, k - 1))     \* natural exponent

\* sequences of rationals
RECURSIVE RSum(_)
RSum(s) == IF s = <<>> THEN RZero ELSE RAdd(Head(s), RSum(Tail(s)))

RMean(s) == RDiv(RSum(s), RInt(Len(s)))                              \* Len(s) > 0

VSub(a, b)   == [i \in 1..Len(a) |-> RSub(a[i], b[i])]
VScale(c, a) == [i \in 1..Len(a) |-> RMul(c, a[i])]
VMap1(a, Op(_)) == [i \in 1..Len(a) |-> Op(a[i])]
VGe(a, b)    == \A i \in 1..Len(a) : RGe(a[i], b[i])
=============================================================================
