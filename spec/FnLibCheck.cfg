INIT Init
NEXT Next
INVARIANT Show
CHECK_DEADLOCK FALSE
