\* E02 teeth: the pinned behaviour (differences of surrogates computed but never stored) must violate TwoWayEmptyIffAgree
CONSTANTS
    Depth = 0
    Seeds = {"full", "sur"}
    OpSet = "all"
    EmitOn = FALSE
    Variant = "nosur"
    L1 = 1
    L2 = 1
    Modes = {"chain", "fork"}
    Exact = FALSE
    Heavy = {}
INIT DInit
NEXT DNext
INVARIANT TwoWayEmptyIffAgree
CHECK_DEADLOCK FALSE
