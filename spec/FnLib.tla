------------------------------ MODULE FnLib ------------------------------
(***************************************************************************)
(* The named function universe of the integer-valued model families        *)
(* (C01, C03, C13).  Every name has a twin in mbt/fnlib.py; the harness    *)
(* cross-checks the two tables on a grid before any verdict (FnLibCheck).  *)
(* All functions are total on integers, so generated models never fail for *)
(* arithmetic reasons; distinct primes as base values make swapped or      *)
(* stale arguments visible in the result.                                  *)
(***************************************************************************)
EXTENDS Integers, Sequences

FnArity == [one |-> 0, two |-> 0,
            id |-> 1, neg |-> 1, dbl |-> 1, inc |-> 1, step |-> 1, pos |-> 1, lg2 |-> 1, dsum |-> 1, loopinc |-> 1, dflt |-> 1,
            add |-> 2, sub |-> 2, mul |-> 2, sel |-> 2, cut |-> 2, cap |-> 2, swp |-> 2, kwo |-> 2,
            mad |-> 3]

FApply(fn, a) ==
    CASE fn = "one"  -> 1
      [] fn = "two"  -> 2
      [] fn = "id"   -> a[1]
      [] fn = "neg"  -> 0 - a[1]
      [] fn = "dbl"  -> 2 * a[1]
      [] fn = "inc"  -> a[1] + 1
      [] fn = "step" -> IF a[1] > 2 THEN 1 ELSE 0
      [] fn = "pos"  -> IF a[1] >= 0 THEN a[1] + 1 ELSE 0      \* Python twin: >= against the literal 0, jumps AT the threshold
      [] fn = "lg2"  -> 3 * a[1]               \* Python twin: x * math.log2(8.0), a library call on a constant
      [] fn = "dsum" -> a[1]                  \* a data set is represented by the sum of its entries
      [] fn = "loopinc" -> a[1] + 1           \* Python twin uses a while loop: outside every translator's subset
      [] fn = "dflt" -> 3 * a[1]              \* Python twin calls a helper leaving its defaulted parameter (3) unset
      [] fn = "add"  -> a[1] + a[2]
      [] fn = "sub"  -> a[1] - a[2]
      [] fn = "mul"  -> a[1] * a[2]
      [] fn = "sel"  -> IF a[1] > a[2] THEN a[1] - a[2] ELSE 3 * a[2]
      [] fn = "cut"  -> IF a[1] > a[2] THEN a[1] - a[2] ELSE a[1]   \* Python twin: local re-bound inside a one-sided if
      [] fn = "cap"  -> IF a[1] < a[2] THEN a[1] ELSE a[2]          \* Python twin: np.minimum (a KNOWN_FNS row)
      [] fn = "swp"  -> 2 * a[2] - a[1]                               \* Python twin: tuple swap, then 2*first - second
      [] fn = "kwo"  -> 3 * a[1] + a[2]        \* Python twin: helper called with a keyword AFTER a skipped default (_aff(x, off=y), k = 3)
      [] fn = "mad"  -> a[1] * a[2] + a[3]

\* functions whose Python twin no translator (symbolic, code generators, SBML) can represent
Untranslatable == {"loopinc", "dsum"}
\* functions a translator may either refuse or translate correctly (never translate wrongly)
MaybeTranslatable == {"dflt", "cap", "kwo", "lg2"}

FAdd(a, b) == a + b
FMul(a, b) == a * b
=============================================================================
