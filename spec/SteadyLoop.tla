----------------------------- MODULE SteadyLoop -----------------------------
(***************************************************************************)
(* C15 -- steady-state results are steady states; absence is reported as   *)
(* failure.                                                                *)
(*                                                                         *)
(* The convergence loop of a steady-state simulation                       *)
(*      y1 := y0                                                           *)
(*      repeat at most MaxSteps times:                                     *)
(*          y2 := Phi(y1)            (integrate one step of 100 time units)*)
(*          if ||y2 - y1||_2 < tol   (or ||(y2 - y1) / y1||_2 < tol)       *)
(*              return y2                                                  *)
(*          y1 := y2                                                       *)
(*      fail (no steady state)                                             *)
(* over an EXACT model of the one-step map Phi:                            *)
(*   relax : y |-> ys + 2^-m (y - ys)     ys = the steady state; linear    *)
(*           networks all of whose excited modes decay with rate k,        *)
(*           k * 100 = m * ln 2                                            *)
(*   lin   : y |-> y + c                  unbounded accumulation           *)
(*   grow  : y |-> 2^m y                  exponential growth               *)
(* States are dyadic rationals y*_i + dev_i / 2^e (integers y*_i, dev_i),  *)
(* so TLC decides every comparison exactly with 32-bit integers (DyLess    *)
(* never multiplies by a power of two; spec/Rat.tla guards at 2^20, which  *)
(* is too tight for tolerances around 1e-6).  The Euclidean norm of an     *)
(* integer vector is bracketed by floor / ceiling of its square root: when *)
(* the tolerance falls inside the bracket the loop may or may not declare  *)
(* convergence at this step (both behaviours exist); everything proved     *)
(* below holds for all of them.                                            *)
(*                                                                         *)
(* Loop = "copy"  : y1 is a copy of y2                       (the contract)*)
(* Loop = "alias" : y1 := y2 makes y1 the integrator's output buffer, the  *)
(*                  next difference is identically zero (pinned commit)    *)
(*                                                                         *)
(* Proved by TLC over the grid Cases:                                      *)
(*   SuccessIsSteady : success => |y_i - y*_i| < tol / (2^m - 1), i.e.     *)
(*                     tol * r / (1 - r) with r = 2^-m (relative norm:     *)
(*                     times |y1_i|); only relaxing networks succeed       *)
(*   AccumFails      : accumulating / growing networks never succeed       *)
(*   RelaxConverges  : relaxing networks never fail (and need <= 40 steps) *)
(*   Plumbing        : failure is an error value of get_result and a NaN   *)
(*                     row of a scan, success is the returned state        *)
(***************************************************************************)
EXTENDS Integers, Sequences, FiniteSets, FiniteSetsExt, TLC, Json, IOUtils

CONSTANTS
    MaxSteps,     \* 1000 in the implementation
    Loop,         \* "copy" | "alias"
    Family,       \* "all" | "relax" | "accum" | "looserel" | "slowaccum" | "forced" | "zerovar" | "grow" | "ssupd"  (which cases Init draws from), or
                  \* "file": cases proposed by the harness in the JSON file IOEnv.CASE_FILE (oracle mode)
    Tier,         \* "quick" | "thorough"  (size of the grid)
    NanRule,      \* "notconverged" | "converged": is an UNDEFINED norm (0/0 under the relative norm, inf - inf
                  \* after overflow) convergence?  ("converged" = the guard `norm >= tol: continue`: must be refuted)
    FluxRule,     \* "segment" | "stale": which parameter values the fluxes reported with a steady-state point are
                  \* evaluated under: the point's own segment, or a stale earlier segment's (must be refuted)
    ScanNorm,     \* "asked" | "absolute": which norm a search started through the scan-family entry points uses:
                  \* the one the caller asked for, or always the absolute one (rel_norm dropped: must be refuted)
    Reporter,     \* "contract" | "earlier": what get_result reports after a failed search on a simulator that
                  \* already holds results ("earlier" = hand back the earlier results: must be refuted by TLC)
    EmitOn

VARIABLES cs, s, status, aliased, todo, held, off
vars == <<cs, s, status, aliased, todo, held, off>>
\* todo : what still happens on this simulator BEFORE the steady-state search (the case's history)
\* held : "none" | "rows" -- does the simulator hold results of an earlier successful simulation
\* off  : number of 100-unit steps the integrator has already advanced when the search starts

Abs(x) == IF x < 0 THEN 0 - x ELSE x
Pow2(k) == 2 ^ k

(***************************************************************************)
(* A * 2^-a < B * 2^-b for naturals A, B < 2^31 and integers a, b, without *)
(* ever forming a product:  A < B * 2^k  <=>  floor(A / 2^k) < B   and     *)
(* A * 2^j < B  <=>  A <= floor((B - 1) / 2^j).                            *)
(***************************************************************************)
DyLess(A, a, B, b) ==
    IF B = 0 THEN FALSE
    ELSE IF A = 0 THEN TRUE
    ELSE LET k == a - b
         IN IF k >= 0 THEN (IF k >= 31 THEN 0 ELSE A \div Pow2(k)) < B
            ELSE A <= (IF 0 - k >= 31 THEN 0 ELSE (B - 1) \div Pow2(0 - k))

FloorSqrt(q) == CHOOSE r \in 0..64 : r * r <= q /\ (r + 1) * (r + 1) > q      \* q <= 2 * 32^2
CeilSqrt(q)  == LET r == FloorSqrt(q) IN IF r * r = q THEN r ELSE r + 1
SumSq(v) == FoldSet(LAMBDA i, acc : acc + v[i] * v[i], 0, DOMAIN v)

(***************************************************************************)
(* Cases.  A case fixes the network (how it is rendered into a real model  *)
(* is the harness's business: net, m, m2 and ystar determine the rate      *)
(* constants), the one-step map, the initial state, tolerance 1/td, the    *)
(* norm mode and whether the initial state is the model's default or       *)
(* user-supplied.                                                          *)
(*   relax : state after s steps = (ystar + dev / 2^(m s)) / 2^u           *)
(*   lin   : state after s steps = (ystar + c s) / 2^u  (ystar = y0)       *)
(*   grow  : state after s steps = dev * 2^(m s) / 2^u  (ystar = 0)        *)
(***************************************************************************)
Case(net, kind, m, m2, ystar, dev, c, td, rel, user) ==
    [net |-> net, kind |-> kind, m |-> m, m2 |-> m2, ystar |-> ystar, dev |-> dev, c |-> c,
     td |-> td, rel |-> rel, user |-> user, u |-> 0, prior |-> "none", entry |-> "simulator"]
\* the same search started through a scan-family entry point (scan.steady_state & co: a worker builds a fresh
\* Simulator per row and runs the search at the default tolerance with the norm mode it was given)
ViaScan(c) == [c EXCEPT !.entry = "scan"]
\* the case as the loop actually runs it
Eff(c) == IF c.entry = "scan" /\ ScanNorm = "absolute" THEN [c EXCEPT !.rel = FALSE] ELSE c
\* the same case on a simulator with a history:  "sim"      : simulate(100) succeeded before the search (the search
\*                                                             continues from that state; its results stay held)
\*                                               "simclear" : simulate(100), then clear_results (fresh again)
WithPrior(c, p) == [c EXCEPT !.prior = p]
\*                                               "ssupd"    : a steady-state search succeeded on the network with
\*                                                             other influxes (steady state = this case's initial
\*                                                             state ystar + dev, reached up to the tolerance), then
\*                                                             the influx parameters were updated to this case's:
\*                                                             the result has two segments, two steady-state points
PriorOps(p) == CASE p = "none" -> <<>> [] p = "sim" -> <<"simulate">> [] p = "simclear" -> <<"simulate", "clear">>
                 [] p = "ssupd" -> <<"steady", "update">>
\*                                               "protocol" : simulate_protocol (one step of 100 under the case's
\*                                                             parameters) succeeded before the search
\*                                               "simupdvar": simulate(100) from other initial values, then
\*                                                             update_variables to this case's initial state: the
\*                                                             search starts from there, the earlier rows stay held
                 [] p = "protocol" -> <<"simulate">>
                 [] p = "simupdvar" -> <<"simulate", "setstate">>
\* the same network with every concentration divided by 2^u (small concentrations: the absolute and the relative
\* criterion then differ in strictness the other way round)
Scaled(c, u) == [c EXCEPT !.u = u]

Tds    == IF Tier = "quick" THEN {128, 1024, 1000000} ELSE {128, 1024, 1000000, 1048576}
Ms     == IF Tier = "quick" THEN {1, 2, 4} ELSE {1, 2, 3, 4}
Users  == BOOLEAN

Pool1 ==
    {Case("pool1", "relax", m, 0, <<ys>>, <<d>>, <<0>>, td, rel, user) :
        m \in Ms, ys \in (IF Tier = "quick" THEN {10} ELSE {1, 10, 31}),
        d \in (IF Tier = "quick" THEN {0 - 10, 3, 32} ELSE {0 - 10, 0 - 7, 0 - 1, 0, 1, 3, 32}),
        td \in Tds, rel \in BOOLEAN, user \in Users}

Pools2 ==
    {Case("pools2", "relax", m, 0, <<10, 4>>, d, <<0, 0>>, td, rel, user) :
        m \in Ms,
        d \in (IF Tier = "quick" THEN {<<3, 4>>, <<0 - 6, 8>>} ELSE {<<3, 4>>, <<0 - 6, 8>>, <<5, 0 - 3>>, <<0, 7>>, <<0 - 10, 0 - 4>>, <<20, 21>>}),
        td \in Tds, rel \in BOOLEAN, user \in Users}

\* a -> x -> y -> with k1 = m ln2/100 (slow) and k2 = m2 ln2/100: x* = 12, y* = 12 m / m2; the initial
\* deviation lies on the slow eigenvector (1, m / (m2 - m)), so the whole state contracts with 2^-m
ChainShapes == IF Tier = "quick" THEN {<<1, 2>>, <<2, 3>>} ELSE {<<1, 2>>, <<1, 3>>, <<2, 3>>, <<2, 4>>, <<1, 4>>, <<3, 4>>}
Chain2 ==
    {Case("chain2", "relax", sh[1], sh[2], <<12, (12 * sh[1]) \div sh[2]>>,
          <<d * (sh[2] - sh[1]), d * sh[1]>>, <<0, 0>>, td, rel, user) :
        sh \in ChainShapes, d \in (IF Tier = "quick" THEN {0 - 3, 4} ELSE {0 - 3, 0 - 1, 1, 4}),
        td \in Tds, rel \in BOOLEAN, user \in Users}

\* x <-> y with kf = mf ln2/100, kr = m2 ln2/100 (m = mf + m2), total 12: x* = 12 m2 / m, y* = 12 mf / m
CycleShapes == IF Tier = "quick" THEN {<<1, 1>>, <<1, 2>>} ELSE {<<1, 1>>, <<1, 2>>, <<2, 1>>, <<3, 1>>, <<1, 3>>, <<2, 2>>}
Cycle2 ==
    {Case("cycle2", "relax", sh[1] + sh[2], sh[2], <<(12 * sh[2]) \div (sh[1] + sh[2]), (12 * sh[1]) \div (sh[1] + sh[2])>>,
          <<d, 0 - d>>, <<0, 0>>, td, rel, user) :
        sh \in CycleShapes, d \in (IF Tier = "quick" THEN {0 - 3, 2} ELSE {0 - 3, 0 - 1, 2, 3}),
        td \in Tds, rel \in BOOLEAN, user \in Users}

Unscaled   == {c \in Pool1 \cup Pools2 \cup Chain2 \cup Cycle2 :
                  \A i \in DOMAIN c.ystar : c.ystar[i] + c.dev[i] >= 0}
\* a variable that is identically zero (a branch switched off by a zero rate constant): under the relative norm
\* its contribution is 0/0 in every window -- the norm is undefined
ZeroVar ==
    {Case("pools2", "relax", m, 0, <<10, 0>>, <<d, 0>>, <<0, 0>>, td, rel, user) :
        m \in (IF Tier = "quick" THEN {1} ELSE {1, 2}), d \in {0 - 7, 32}, td \in {128, 1000000}, rel \in BOOLEAN, user \in Users}
HasZeroVar(c) == c.kind = "relax" /\ \E i \in DOMAIN c.ystar : c.ystar[i] = 0 /\ c.dev[i] = 0
\* steady state, parameter update, steady state again (only networks whose excited modes share one rate for ANY
\* change of the influxes: independent pools)
SsUpd(S) == {WithPrior(c, "ssupd") : c \in {d \in S : /\ d.net \in {"pool1", "pools2"} /\ ~d.user /\ d.u = 0 /\ d.td # 1024
                                                       /\ \A i \in DOMAIN d.ystar : d.ystar[i] + d.dev[i] >= 1 /\ d.dev[i] # 0}}
Histories(S) == {WithPrior(c, p) : c \in {d \in S : ~d.user /\ d.u = 0}, p \in {"sim", "simclear"}}
                \cup {WithPrior(c, p) : c \in {d \in S : ~d.user /\ d.u = 0 /\ d.net \in {"pool1", "const1", "grow1"} /\ d.td # 1024},
                                         p \in {"protocol", "simupdvar"}}
RelaxCases == Unscaled \cup {Scaled(c, 6) : c \in {d \in Unscaled : d.net \in {"pool1", "cycle2"}}}
              \cup Histories({c \in Unscaled : c.net \in {"pool1", "cycle2"} /\ c.td # 1024})
              \cup ZeroVar \cup SsUpd(Unscaled)

\* accumulation: the relative criterion is only meaningful for tolerances below 1 / MaxSteps (see LooseRel)
Const1 ==
    {Case("const1", "lin", 0, 0, <<y0>>, <<0>>, <<c>>, td, rel, user) :
        y0 \in {0, 2}, c \in (IF Tier = "quick" THEN {1} ELSE {1, 3}), td \in Tds, rel \in BOOLEAN, user \in Users}
Feed2 ==
    {Case("feed2", "lin", 1, 0, <<1, y0>>, <<0, 0>>, <<0, c>>, td, rel, user) :
        y0 \in {1, 5}, c \in (IF Tier = "quick" THEN {2} ELSE {1, 2}), td \in Tds, rel \in BOOLEAN, user \in Users}
\* m = 1 stays finite within the budget (2^1000), m >= 2 overflows the floating point range at step 1024 / m
Grow1 ==
    {Case("grow1", "grow", m, 0, <<0>>, <<y0>>, <<0>>, td, rel, user) :
        m \in {1, 2, 4}, y0 \in (IF Tier = "quick" THEN {1} ELSE {1, 3}), td \in (Tds \ {1024}), rel \in BOOLEAN, user \in Users}

AccumAll   == LET A == Const1 \cup Feed2 \cup Grow1
              IN A \cup {Scaled(c, 6) : c \in {d \in A : d.net = "const1" /\ d.td >= 1024}}
LooseRel   == {c \in AccumAll : c.rel /\ c.kind = "lin" /\ c.td < MaxSteps}
AccumCases == LET A == AccumAll \ LooseRel IN A \cup Histories(A)
\* accumulation by less than the tolerance per loop step (here 2^-8 per step against 1/128)
SlowAccum  == {Scaled(c, 8) : c \in {d \in Const1 : ~d.rel /\ d.td = 128}}

\* searches started through the scan entry points: the scan's tolerance is the default 1e-6; concentrations of
\* order 1 and of order 1e-5 (where the two norms decide differently: the absolute criterion is met while the
\* state is still far from the steady state in relative terms; a pool without outflow creeps by less than the
\* absolute tolerance per step but never meets the relative one)
ScanCases ==
    LET S == {c \in Pool1 \cup Const1 : c.td = 1000000 /\ ~c.user}
    IN {ViaScan(c) : c \in S}
       \cup {ViaScan(Scaled(c, 20)) : c \in {d \in S : d.kind = "relax" \/ d.rel}}

Cases == CASE Family = "all"      -> RelaxCases \cup AccumCases \cup ScanCases
           [] Family = "relax"    -> RelaxCases
           [] Family = "accum"    -> AccumCases
           [] Family = "looserel" -> LooseRel
           [] Family = "slowaccum" -> SlowAccum
           [] Family = "forced"   -> {Case("forced1", "relax", m, 0, <<10>>, <<3>>, <<0>>, td, rel, FALSE) :
                                        m \in {1, 2}, td \in {128, 1000000}, rel \in BOOLEAN}
           [] Family = "zerovar"  -> ZeroVar
           [] Family = "grow"     -> {c \in Grow1 : c.m >= 2}
           [] Family = "ssupd"    -> SsUpd(Unscaled)
           [] Family = "scan"     -> {c \in ScanCases : c.u > 0 /\ c.rel}
           [] Family = "file"     -> LET f == JsonDeserialize(IOEnv.CASE_FILE) IN {f[j] : j \in DOMAIN f}

(***************************************************************************)
(* The quantities of iteration s + 1 (s integrations done, y1 = state      *)
(* after s steps, y2 = state after s + 1 steps), per component i           *)
(*   |y2_i - y1_i| = DiffN(c, i) * 2^-DiffE(c, s)                          *)
(***************************************************************************)
DiffN(c, i) == CASE c.kind = "relax" -> Abs(c.dev[i]) * (Pow2(c.m) - 1)
                 [] c.kind = "lin"   -> Abs(c.c[i])
                 [] c.kind = "grow"  -> Abs(c.dev[i]) * (Pow2(c.m) - 1)
DiffE(c, st) == c.u + (CASE c.kind = "relax" -> c.m * (st + 1)
                         [] c.kind = "lin"   -> 0
                         [] c.kind = "grow"  -> 0 - c.m * st)

\* ||y2 - y1||_2 = K sqrt(sum base_i^2) 2^-DiffE (base = dev or c, K = 2^m - 1 or 1) is bracketed by the
\* integers below (times 2^-DiffE)
Base(c)   == IF c.kind = "lin" THEN c.c ELSE c.dev
KFac(c)   == IF c.kind = "lin" THEN 1 ELSE Pow2(c.m) - 1
NormLo(c) == FloorSqrt(SumSq(Base(c))) * KFac(c)
NormHi(c) == CeilSqrt(SumSq(Base(c))) * KFac(c)

\* is y1_i = 0 ?  (relative mode divides by it)
Y1Zero(c, st, i) ==
    CASE c.kind = "relax" -> IF st = 0 THEN c.ystar[i] + c.dev[i] = 0 ELSE c.ystar[i] = 0 /\ c.dev[i] = 0
      [] c.kind = "lin"   -> c.ystar[i] + c.c[i] * st = 0
      [] c.kind = "grow"  -> c.dev[i] = 0

\* relative mode, component i:  f * |y2_i - y1_i| / |y1_i| < 1 / td   (f = 1, or the number of components for
\* the upper bracket  ||q||_2 <= sum |q_i| <= n max |q_i|); the scale 2^-u cancels
RelLess(c, st, i, f) ==
    LET D == f * DiffN(c, i) * c.td
    IN CASE c.kind = "lin"  -> D < Abs(c.ystar[i] + c.c[i] * st)
         [] c.kind = "grow" -> D < Abs(c.dev[i])                      \* 2^(m st) cancels
         [] c.kind = "relax" ->
               \* D 2^-m(st+1) < |ystar + dev 2^-(m st)|  <=>  floor(D / 2^m) < |ystar 2^(m st) + dev|
               LET W == c.m * st
               IN IF W <= 25 THEN (D \div Pow2(c.m)) < Abs(c.ystar[i] * Pow2(W) + c.dev[i])
                  ELSE c.ystar[i] >= 1     \* then |..| >= 2^26 - 32 > D / 2^m  (GridOK)

\* Is the norm a number at all?  "nan": some component is 0/0 (relative norm, y1_i = 0 and no change), or the state
\* of a growing network has left the floating point range (2^1024) at both ends of the window (inf - inf);
\* "inf": x/0 with x # 0, or overflow at the end of the window only.  An infinite norm is simply not below the
\* tolerance; an UNDEFINED norm is no evidence of convergence either (NanRule = "notconverged").
Overflown(c, st) == c.kind = "grow" /\ c.m * st - c.u >= 1024
NormKind(c, st) ==
    IF Overflown(c, st) THEN "nan"
    ELSE IF Overflown(c, st + 1) THEN "inf"
    ELSE IF c.rel /\ \E i \in DOMAIN c.ystar : Y1Zero(c, st, i) /\ DiffN(c, i) = 0 THEN "nan"
    ELSE IF c.rel /\ \E i \in DOMAIN c.ystar : Y1Zero(c, st, i) THEN "inf"
    ELSE "num"

CanDeclare(c, st) ==      \* the exact norm MAY be below the tolerance
    IF c.rel THEN \A i \in DOMAIN c.ystar : ~Y1Zero(c, st, i) /\ RelLess(c, st, i, 1)
    ELSE DyLess(NormLo(c) * c.td, DiffE(c, st), 1, 0)
MustDeclare(c, st) ==     \* the exact norm IS below the tolerance
    IF c.rel THEN \A i \in DOMAIN c.ystar : ~Y1Zero(c, st, i) /\ RelLess(c, st, i, Len(c.ystar))
    ELSE DyLess(NormHi(c) * c.td, DiffE(c, st), 1, 0)

\* side conditions under which the shortcuts above are exact (checked as an invariant on every case)
GridOK(c) ==
    /\ Len(c.ystar) \in 1..2 /\ c.td >= 2 /\ c.m \in 0..4 /\ c.u \in 0..24
    /\ \A i \in DOMAIN c.ystar :
          /\ Abs(c.dev[i]) <= 32 /\ c.ystar[i] \in 0..31 /\ Abs(c.c[i]) <= 32
          /\ 2 * DiffN(c, i) <= 1073741823 \div c.td           \* products with td and the factor 2 stay below 2^30
          /\ (c.kind = "relax" /\ c.rel) => /\ (c.ystar[i] >= 1 \/ (c.ystar[i] = 0 /\ c.dev[i] = 0))
                                             /\ (2 * DiffN(c, i) * c.td) \div Pow2(c.m) < 67108832   \* 2^26 - 32
    /\ NormHi(c) <= 1073741823 \div c.td

(***************************************************************************)
(* The loop                                                                *)
(***************************************************************************)
Init ==
    /\ cs \in Cases
    /\ s = 0
    /\ status = "run"
    /\ aliased = FALSE
    /\ todo = PriorOps(cs.prior)
    /\ held = "none"
    /\ off = 0

\* the history before the search: an ordinary simulation over one step length succeeds (these networks have
\* global solutions), its rows are held and the integrator stands at its end; clear_results forgets both
Before ==
    /\ todo # <<>>
    /\ CASE Head(todo) = "simulate" -> held' = "rows" /\ off' = off + 1
         [] Head(todo) = "clear"    -> held' = "none" /\ off' = 0
         [] Head(todo) = "steady"   -> held' = "rows" /\ off' = 0    \* one steady-state point held; the integrator
                                                                     \* stands at it (the new search counts from here)
         [] Head(todo) = "update"   -> UNCHANGED <<held, off>>        \* the case's own parameters are now in force
         [] Head(todo) = "setstate" -> held' = held /\ off' = 0         \* the integrator restarts from the new state
    /\ todo' = Tail(todo)
    /\ UNCHANGED <<cs, s, status, aliased>>

\* the state the loop is in after s of its own steps is the network's state after P = s + off steps

\* while y1 aliases y2 the difference is identically zero: 0 < tol, and 0 / y1_i = 0 unless y1_i = 0 (nan)
P == s + off
E == Eff(cs)
CanNum  == IF aliased THEN (E.rel => \A i \in DOMAIN cs.ystar : ~Y1Zero(E, P + 1, i)) ELSE CanDeclare(E, P)
MustNum == IF aliased THEN (E.rel => \A i \in DOMAIN cs.ystar : ~Y1Zero(E, P + 1, i)) ELSE MustDeclare(E, P)
Can  == CASE NormKind(E, P) = "num" -> CanNum  [] NormKind(E, P) = "inf" -> FALSE [] OTHER -> NanRule = "converged"
Must == CASE NormKind(E, P) = "num" -> MustNum [] NormKind(E, P) = "inf" -> FALSE [] OTHER -> NanRule = "converged"

Declare ==
    /\ todo = <<>>
    /\ status = "run" /\ s < MaxSteps /\ Can
    /\ s' = s + 1
    /\ status' = "ok"
    /\ UNCHANGED <<cs, aliased, todo, held, off>>

Continue ==
    /\ todo = <<>>
    /\ status = "run" /\ s < MaxSteps /\ ~Must
    /\ s' = s + 1
    /\ status' = IF s + 1 = MaxSteps THEN "fail" ELSE "run"
    /\ aliased' = (Loop = "alias")
    /\ UNCHANGED <<cs, todo, held, off>>

Next == Before \/ Declare \/ Continue
Done == status # "run"

(***************************************************************************)
(* Properties                                                              *)
(***************************************************************************)
\* |y_i - y*_i| = |dev_i| 2^-(m P + u) after P = s + off steps
SuccessIsSteady ==
    status = "ok" =>
        /\ cs.kind = "relax"
        /\ \A i \in DOMAIN cs.ystar :
              IF cs.rel
              THEN \* (2^m - 1) |dev_i| 2^-(m s) < tol |y1_i|,  y1 = the state after s - 1 steps  (same inequality as the guard)
                   RelLess(cs, P - 1, i, 1)
              ELSE \* (2^m - 1) |dev_i| 2^-(m s + u) < tol
                   DyLess(Abs(cs.dev[i]) * (Pow2(cs.m) - 1) * cs.td, cs.m * P + cs.u, 1, 0)

\* networks WITHOUT a steady state: accumulation, growth, and a pool driven by a periodic influx
\* a (1 + sin(2 pi t / 100)) ("forced1"): its solution approaches a periodic orbit; SAMPLED once per period (the loop's
\* step is a multiple of the period) the sequence is  y_per(0) + 2^-(m s) dev  -- it converges, the state does not
NoSteady(c)    == c.kind \in {"lin", "grow"} \/ c.net = "forced1"
AccumFails     == NoSteady(cs) => status # "ok"
\* (a network with an identically-zero variable never gets a defined relative norm: the search may only fail)
RelaxConverges == (cs.kind = "relax" /\ ~(cs.rel /\ HasZeroVar(cs))) => status # "fail" /\ s <= 40
UndefinedIsNotConvergence ==
    /\ (cs.rel /\ HasZeroVar(cs)) => status # "ok"
    /\ (status = "ok" /\ s >= 1) => NormKind(E, P - 1) = "num" \/ aliased

\* Reported fluxes balance: the fluxes reported with the steady-state point of the LAST segment are the network's
\* fluxes at that point under the parameter values UsedSeg says.  Under the point's own parameters the net flux
\* into variable i is  -k (y_i - ystar_i)  (below k times the proven bound, same inequality as SuccessIsSteady);
\* under the first segment's parameters (history "ssupd": steady state ystar + dev before the update) it is
\* -k (y_i - (ystar_i + dev_i)),  at least k |dev_i| / 2 in size.
FluxesBalance ==
    (status = "ok" /\ cs.kind = "relax") =>
        \A i \in DOMAIN cs.ystar :
            IF FluxRule = "stale" /\ cs.prior = "ssupd"
            THEN DyLess(Abs(cs.dev[i]) * (Pow2(cs.m) - 1) * cs.td, 1 + cs.u, 1, 0)
            ELSE IF cs.rel THEN RelLess(cs, P - 1, i, 1)
            ELSE DyLess(Abs(cs.dev[i]) * (Pow2(cs.m) - 1) * cs.td, cs.m * P + cs.u, 1, 0)
GridIsOK       == GridOK(cs)

\* what the caller sees
\* what the caller sees.  A successful search appends the steady state to whatever the simulator holds, so the
\* LAST row of the result is the steady state (the network's state after P steps).  A failed search must give a
\* failure value WHATEVER happened on this simulator before; the wrong reporter hands back the earlier rows.
GetResult ==
    IF status = "ok" THEN [k |-> "value", last |-> P, earlier |-> held = "rows", segments |-> IF held = "rows" THEN 2 ELSE 1]
    ELSE IF Reporter = "earlier" /\ held = "rows" THEN [k |-> "value", last |-> off, earlier |-> TRUE, segments |-> 1]
    ELSE [k |-> "error", last |-> 0, earlier |-> FALSE, segments |-> 0]
\* the scan worker builds a fresh simulator for every row: no history
ScanRow   == IF status = "ok" THEN "state" ELSE "nan"
Plumbing ==
    Done => /\ (GetResult.k = "value") = (status = "ok")
            /\ status = "ok" => GetResult.last = P /\ GetResult.earlier = (cs.prior \in {"sim", "ssupd", "protocol", "simupdvar"})
            /\ (ScanRow = "nan") = (status = "fail")
            /\ status = "fail" => s = MaxSteps
            /\ todo = <<>> /\ off = (IF cs.prior \in {"sim", "protocol"} THEN 1 ELSE 0)
            /\ status = "ok" => GetResult.segments = (IF cs.prior \in {"sim", "ssupd", "protocol", "simupdvar"} THEN 2 ELSE 1)

\* a verdict that would flip if the tolerance were 10 times larger sits on a threshold (numerically fragile):
\* in this family only accumulation judged by the relative norm with 1 / tol within a factor 10 of MaxSteps
\* (and accumulation judged by the absolute norm whose per-step increment is within a factor 10 of the tolerance)
Fragile(c) == \/ c.kind = "lin" /\ c.rel /\ c.td < 10 * (MaxSteps + 32)
              \/ c.kind = "lin" /\ ~c.rel /\ NormLo(c) * c.td < 10 * Pow2(c.u)

Emit == (EmitOn /\ Done) =>
    PrintT("@J@" \o ToJson([case |-> cs, outcome |-> status, steps |-> s, last |-> P, undefined |-> cs.rel /\ HasZeroVar(cs), result |-> GetResult.k, scan |-> ScanRow,
                             fragile |-> Fragile(cs)]) \o "@E@")
=============================================================================
