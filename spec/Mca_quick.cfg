\* C18: theorems + coefficient tables on the quick grid (2 values per symbol)
CONSTANTS
    Nets = {"chain2", "branch", "rev", "sgn", "cycle", "ia", "iac", "ipar", "pl"}
    Grid = "quick"
    EmitOn = TRUE
INIT Init
NEXT Next
INVARIANT ScaledIsOrder
INVARIANT QuotExact
INVARIANT SteadyIsSteady
INVARIANT Summation
INVARIANT QuotNearD
INVARIANT TotalDiffers
INVARIANT InitIsState
INVARIANT MSameState
INVARIANT MDiffers
INVARIANT SignedWitness
INVARIANT Homogeneous
INVARIANT Witness
INVARIANT Emit
CHECK_DEADLOCK FALSE
