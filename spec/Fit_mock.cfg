\* C20 Fit machine: reporting a loss that was never computed: counterexample expected
CONSTANTS
    Points = {1, 2, 3}
    LossVals = {0, 10, 20}
    MaxEvals = 3
    Reporter = "mock"
    Copy = TRUE
    Generated = TRUE
INIT Init
NEXT Next
INVARIANT RepHonest
CHECK_DEADLOCK FALSE
