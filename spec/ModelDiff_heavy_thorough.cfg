\* E02 mc (thorough): report / comparison laws on every pair with |h1| <= 1, |h2| <= 1 (chain)
CONSTANTS
    Depth = 0
    Seeds = {"full", "lin1", "lin2"}
    OpSet = "all"
    EmitOn = FALSE
    Variant = "doc"
    L1 = 1
    L2 = 1
    Modes = {"chain"}
    Exact = FALSE
    Heavy = {"report", "compare"}
INIT DInit
NEXT DNext
INVARIANT ReportLaws
INVARIANT CompareLaws
INVARIANT ArgsAtAgrees
CHECK_DEADLOCK FALSE
