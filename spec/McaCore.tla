------------------------------ MODULE McaCore ------------------------------
(***************************************************************************)
(* C18 (pure operators): rate laws and closed-form steady states as small  *)
(* expression trees over exact rationals, their symbolic derivative, and   *)
(* the definitions of elasticities and response coefficients.              *)
(*                                                                         *)
(* Expressions (tagged records, disjoint fields per tag):                  *)
(*   [k |-> "num", v |-> rational]      [k |-> "sym", name |-> string]     *)
(*   [k |-> "add"|"sub"|"mul"|"div", a, b]     [k |-> "pow", a, e |-> Nat] *)
(* Bad == [n |-> 0, d |-> 0] marks "undefined" (division by zero).         *)
(*                                                                         *)
(* A network is [vars, pars (sequences of names), rxns (sequence of        *)
(* [name, rate, st]), ss (variable |-> closed-form steady state as an      *)
(* expression in the parameters; <<>>-domain when not given)].             *)
(***************************************************************************)
EXTENDS LossesRat, FiniteSets, TLC

Bad == [n |-> 0, d |-> 0]
IsBad(r) == r.d = 0

Num(i)      == [k |-> "num", v |-> RInt(i)]
NumR(r)     == [k |-> "num", v |-> r]
Sym(s)      == [k |-> "sym", name |-> s]
Add(a, b)   == [k |-> "add", a |-> a, b |-> b]
Sub(a, b)   == [k |-> "sub", a |-> a, b |-> b]
Mul(a, b)   == [k |-> "mul", a |-> a, b |-> b]
Div(a, b)   == [k |-> "div", a |-> a, b |-> b]
Pow(a, e)   == [k |-> "pow", a |-> a, e |-> e]

RECURSIVE Eval(_, _)
Eval(e, env) ==
    CASE e.k = "num" -> e.v
      [] e.k = "sym" -> env[e.name]
      [] e.k = "pow" -> LET a == Eval(e.a, env) IN IF IsBad(a) THEN Bad ELSE RPow(a, e.e)
      [] OTHER ->
            LET a == Eval(e.a, env)
                b == Eval(e.b, env)
            IN  IF IsBad(a) \/ IsBad(b) THEN Bad
                ELSE CASE e.k = "add" -> RAdd(a, b)
                       [] e.k = "sub" -> RSub(a, b)
                       [] e.k = "mul" -> RMul(a, b)
                       [] e.k = "div" -> IF RIsZero(b) THEN Bad ELSE RDiv(a, b)

\* symbolic partial derivative with respect to the symbol s (no simplification: Eval decides the value)
RECURSIVE D(_, _)
D(e, s) ==
    CASE e.k = "num" -> Num(0)
      [] e.k = "sym" -> IF e.name = s THEN Num(1) ELSE Num(0)
      [] e.k = "add" -> Add(D(e.a, s), D(e.b, s))
      [] e.k = "sub" -> Sub(D(e.a, s), D(e.b, s))
      [] e.k = "mul" -> Add(Mul(D(e.a, s), e.b), Mul(e.a, D(e.b, s)))
      [] e.k = "div" -> Div(Sub(Mul(D(e.a, s), e.b), Mul(e.a, D(e.b, s))), Mul(e.b, e.b))
      [] e.k = "pow" -> IF e.e = 0 THEN Num(0) ELSE Mul(Mul(Num(e.e), Pow(e.a, e.e - 1)), D(e.a, s))

\* simultaneous substitution of expressions for symbols (sigma: name |-> expression)
RECURSIVE Subst(_, _)
Subst(e, sigma) ==
    CASE e.k = "num" -> e
      [] e.k = "sym" -> IF e.name \in DOMAIN sigma THEN sigma[e.name] ELSE e
      [] e.k = "pow" -> Pow(Subst(e.a, sigma), e.e)
      [] OTHER -> [k |-> e.k, a |-> Subst(e.a, sigma), b |-> Subst(e.b, sigma)]

\* kinetic order of a power-law term (products, quotients and powers of symbols and constants) in the symbol s
RECURSIVE Order(_, _)
Order(e, s) ==
    CASE e.k = "num" -> 0
      [] e.k = "sym" -> IF e.name = s THEN 1 ELSE 0
      [] e.k = "mul" -> Order(e.a, s) + Order(e.b, s)
      [] e.k = "div" -> Order(e.a, s) - Order(e.b, s)
      [] e.k = "pow" -> e.e * Order(e.a, s)
RECURSIVE IsPowerLaw(_)
IsPowerLaw(e) ==
    CASE e.k \in {"num", "sym"} -> TRUE
      [] e.k \in {"mul", "div"} -> IsPowerLaw(e.a) /\ IsPowerLaw(e.b)
      [] e.k = "pow" -> IsPowerLaw(e.a)
      [] OTHER -> FALSE

\* degree of homogeneity of e in the symbols of the set S (sums: the degree of the first summand; Homogeneous in
\* Mca.tla checks the consequence on every point, so a non-homogeneous sum cannot pass unnoticed)
RECURSIVE HDeg(_, _)
HDeg(e, S) ==
    CASE e.k = "num" -> 0
      [] e.k = "sym" -> IF e.name \in S THEN 1 ELSE 0
      [] e.k \in {"add", "sub"} -> HDeg(e.a, S)
      [] e.k = "mul" -> HDeg(e.a, S) + HDeg(e.b, S)
      [] e.k = "div" -> HDeg(e.a, S) - HDeg(e.b, S)
      [] e.k = "pow" -> e.e * HDeg(e.a, S)
\* c^k for an integer k (c # 0)
RPowZ(c, k) == IF k >= 0 THEN RPow(c, k) ELSE RPow(RInv(c), 0 - k)

(***************************************************************************)
(* Elasticities at a point env (variables and parameters |-> rationals)    *)
(***************************************************************************)
Range(s) == {s[i] : i \in 1..Len(s)}
Rate(net, r) == (CHOOSE x \in Range(net.rxns) : x.name = r).rate
RxnNames(net) == [i \in 1..Len(net.rxns) |-> net.rxns[i].name]

Flux(net, r, env) == Eval(Rate(net, r), env)
Unscaled(net, r, s, env) == Eval(D(Rate(net, r), s), env)
\* scaled: (s / v) * dv/ds ; undefined where the flux vanishes
Scaled(net, r, s, env) ==
    LET v == Flux(net, r, env)
        u == Unscaled(net, r, s, env)
    IN  IF IsBad(v) \/ IsBad(u) \/ RIsZero(v) THEN Bad ELSE RDiv(RMul(env[s], u), v)

\* the symmetric difference quotient with RELATIVE displacement h that the routines compute
Quot(e, s, env, h) ==
    LET up == Eval(e, [env EXCEPT ![s] = RMul(@, RAdd(ROne, h))])
        dn == Eval(e, [env EXCEPT ![s] = RMul(@, RSub(ROne, h))])
    IN  \* a RELATIVE displacement of a zero value is no displacement: the quotient is undefined there
        IF IsBad(up) \/ IsBad(dn) \/ RIsZero(env[s]) THEN Bad ELSE RDiv(RSub(up, dn), RMul(RMul(RInt(2), h), env[s]))

\* degree of e in s is at most 2 (then the symmetric quotient is exact for every h)
RECURSIVE Deg(_, _)
Deg(e, s) ==
    CASE e.k = "num" -> 0
      [] e.k = "sym" -> IF e.name = s THEN 1 ELSE 0
      [] e.k \in {"add", "sub"} -> IF Deg(e.a, s) > Deg(e.b, s) THEN Deg(e.a, s) ELSE Deg(e.b, s)
      [] e.k = "mul" -> Deg(e.a, s) + Deg(e.b, s)
      [] e.k = "div" -> IF Deg(e.b, s) = 0 THEN Deg(e.a, s) ELSE 99
      [] e.k = "pow" -> e.e * Deg(e.a, s)

(***************************************************************************)
(* Steady state and response coefficients (networks with a closed form)    *)
(***************************************************************************)
HasSS(net) == DOMAIN net.ss # {}
ParEnv(net, env) == [q \in Range(net.pars) |-> env[q]]
SSValue(net, x, penv) == Eval(net.ss[x], penv)
SSEnv(net, penv) == [s \in Range(net.vars) \cup Range(net.pars) |->
                        IF s \in Range(net.pars) THEN penv[s] ELSE SSValue(net, s, penv)]
\* right-hand side of variable x at env
Rhs(net, x, env) == RSum([i \in 1..Len(net.rxns) |->
                            IF x \in DOMAIN net.rxns[i].st THEN RMul(RInt(net.rxns[i].st[x]), Eval(net.rxns[i].rate, env))
                            ELSE RZero])
\* steady-state flux as an expression in the parameters only
SSFluxExpr(net, r) == Subst(Rate(net, r), net.ss)

ConcRC(net, x, q, penv) == Eval(D(net.ss[x], q), penv)                       \* d x* / d q
FluxRC(net, r, q, penv) == Eval(D(SSFluxExpr(net, r), q), penv)              \* d J_r / d q
ScaleBy(c, q, val, penv) == IF IsBad(c) \/ IsBad(val) \/ RIsZero(val) THEN Bad ELSE RDiv(RMul(penv[q], c), val)
\* the symmetric quotient of the steady state itself (what the procedure computes), exact for any displacement h
ConcQ(net, x, q, penv, h) == Quot(net.ss[x], q, penv, h)
FluxQ(net, r, q, penv, h) == Quot(SSFluxExpr(net, r), q, penv, h)
ConcRCs(net, x, q, penv) == ScaleBy(ConcRC(net, x, q, penv), q, SSValue(net, x, penv), penv)
FluxRCs(net, r, q, penv) == ScaleBy(FluxRC(net, r, q, penv), q, Eval(SSFluxExpr(net, r), penv), penv)
ConcQs(net, x, q, penv, h) == ScaleBy(ConcQ(net, x, q, penv, h), q, SSValue(net, x, penv), penv)
FluxQs(net, r, q, penv, h) == ScaleBy(FluxQ(net, r, q, penv, h), q, Eval(SSFluxExpr(net, r), penv), penv)
=============================================================================
