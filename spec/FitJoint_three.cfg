\* C20 joint fits: three experiments, all permutations (theorems only)
CONSTANTS
    Kinds = {"tc", "ptc", "ssc"}
    NExp = 3
    SettingsRule = "own"
    Rich = FALSE
    EmitOn = FALSE
INIT Init
NEXT Next
INVARIANT OrderFree
INVARIANT LeakMatters
INVARIANT HistoryFree
CHECK_DEADLOCK FALSE
