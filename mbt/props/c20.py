"""C20 -- fitting: losses measure discrepancy; fits are honest and spare the input.

spec      : spec/LossesRat.tla (exact rationals), spec/LossesCore.tla (shipped losses as closed terms over rational
            vectors, order through monotone transforms, standard scaling, Residual), spec/Losses.tla (the two LAWS as
            a grid-enumerating machine), spec/FitModels.tla (identifiable linear models with exactly rational
            closed-form predictions -> expected residuals), spec/FitCore.tla + spec/Fit.tla (honest report / no worse
            than start / input spared, with wrong instances), spec/FitTrace.tla (code -> spec)
TLC (mc)  : laws hold for the five lawful shipped losses in both argument orientations; TLC must find the
            counterexamples for `cosine_similarity` and `mean` (and the asymmetry of MAPE / mean); the Fit machine's
            contract instance satisfies every clause, "report the last iterate", "report without evaluating" and
            "no copy" are rejected
spec->code: (a) every grid pair x every shipped loss: real function == spec term; (b) every law counterexample TLC
            finds is replayed on the real function (-> known findings); (c) every FitModels scenario x loss x scaling is
            evaluated through fit.steady_state / time_course / protocol_time_course with a one-evaluation minimiser
            and must equal Residual (either argument orientation)
code->spec: fits with LocalScipyMinimizer recorded through residual_fn= / loss_fn=, harness evaluations at the start
            and at the reported parameters, caller's model content before/after; validated in batches by FitTrace
outside   : whether the minimiser converges.
"""

from __future__ import annotations

import copy
import json
import math
import os
import random

# one BLAS/OpenMP thread per forked worker (16 workers on 16 cores); must precede the first numpy import
for _v in ("OMP_NUM_THREADS", "OPENBLAS_NUM_THREADS", "MKL_NUM_THREADS"):
    os.environ.setdefault(_v, "1")
os.environ.setdefault("TQDM_DISABLE", "1")          # the ensemble wrappers cannot switch their progress bars off

from ..core import Ctx, Report, pmap
from ..fitkit import (CAP, LAWFUL, SHIPPED, Probe, RecordingLoss, RecordingResidual, build, build_ensemble, build_joint, content_of, settings_view,
                      evaluate_at, event, fr, fvec, norm_ensemble, norm_joint, norm_scenario, seq, term_value)
from ..tlc import MachineryError

WORKERS = 8          # the machine is shared: TLC workers and replay processes are capped


def _tlc(ctx, *a, **k):
    k.setdefault("workers", WORKERS)
    return ctx.tlc(*a, **k)


RULE = ("value case = (grid pair, shipped loss) with a defined value; residual case = (scenario, loss, scaling) with a "
        "defined, non-fragile expectation, non-trivial = candidate differs from the truth or the data are displaced; "
        "trace case = one recorded fit; distinct by content")


def close(a: float, b: float, rel: float, abs_: float = 0.0) -> bool:
    if a != a or b != b:
        return False
    if math.isinf(a) or math.isinf(b):
        return a == b
    return abs(a - b) <= rel * max(abs(a), abs(b)) + abs_


# ======================================================================================================
# 1. model checking
# ======================================================================================================
def mc(ctx: Ctx, rep: Report) -> None:
    lawful = ["Losses_lawful2.cfg"] + ([] if ctx.quick else ["Losses_lawful.cfg"])
    for cfg in lawful:
        res = _tlc(ctx, "Losses.tla", cfg)
        rep.add_tlc(res, f"laws 1+2 hold for the five lawful shipped losses in both argument orientations, law 3 data-first as wired ({cfg})")
        if res.payloads:
            raise MachineryError("CexEmit printed a counterexample although the laws were reported to hold")
    for cfg, inv, what in [
        ("Losses_cosine_law1.cfg", "Law1", "shipped cosine_similarity is not smallest at prediction = data"),
        ("Losses_cosine_law2.cfg", "Law2", "shipped cosine_similarity rewards a larger prediction"),
        ("Losses_mean_law1.cfg", "Law1", "shipped mean (signed) is not smallest at prediction = data"),
        ("Losses_mean_law2dp.cfg", "Law2", "shipped mean, data-first as _Settings.loss calls it, rewards a larger prediction"),
        ("Losses_mape_sym.cfg", "Symmetric", "mean_absolute_percentage depends on the argument order"),
        ("Losses_mean_sym.cfg", "Symmetric", "mean depends on the argument order"),
        ("Losses_mape_law3pd.cfg", "Law3Swapped", "prediction-first, mean_absolute_percentage scores a prediction c times too large "
                                                   "better than one c times too small: the laws fix the residual's argument order (data first)"),
    ]:
        res = _tlc(ctx, "Losses.tla", cfg, expect_violation=True, workers=4)
        if res.violated != inv:
            raise MachineryError(f"{cfg}: TLC was expected to violate {inv} ({what}) but reported {res.violated}: "
                                 "the specification has lost its teeth")
        rep.add_tlc(res, f"expected counterexample: {what}")
        rep.notes.setdefault("tlc_counterexamples", []).append(what)
    res = _tlc(ctx, "Losses.tla", "Losses_symmetric.cfg", workers=8)
    rep.add_tlc(res, "mean_squared, rmse, mae, mean_squared_logarithmic, cosine_similarity do not depend on the argument order")
    res = _tlc(ctx, "Losses.tla", "Losses_sym_law3.cfg", workers=4)
    rep.add_tlc(res, "law 3 holds in either argument order for the symmetric lawful losses (only the percentage loss decides the order)")
    res = _tlc(ctx, "Losses.tla", "Losses_reference.cfg", workers=4)
    rep.add_tlc(res, "a cosine DISTANCE satisfies both laws (the property is satisfiable for an angle-based loss)")
    res = _tlc(ctx, "Fit.tla", "Fit_contract.cfg", coverage=True, workers=8)
    rep.add_tlc(res, "Fit machine, contract instance: honest report, never worse than start, input spared, residual functional")
    rep.require_coverage(res, ["Eval", "Report"])
    for cfg, inv, what in [
        ("Fit_last.cfg", "RepNoWorse", "reporting the final iterate can be worse than the starting point"),
        ("Fit_mock.cfg", "RepHonest", "reporting a loss that was never computed (mock_minimizer-shaped)"),
        ("Fit_nocopy.cfg", "SparedAnyway", "without the copy the caller's model holds the last candidate"),
    ]:
        res = _tlc(ctx, "Fit.tla", cfg, expect_violation=True, workers=4)
        if res.violated != inv:
            raise MachineryError(f"{cfg}: TLC was expected to violate {inv} ({what}) but reported {res.violated}")
        rep.add_tlc(res, f"expected counterexample: {what}")


# ======================================================================================================
# 2. loss values: spec term == real function
# ======================================================================================================
def _loss_fn(name):
    from mxlpy.fit import losses

    return getattr(losses, name)


def _value_case(p: dict) -> list[dict]:
    import numpy as np
    import pandas as pd

    a, b = fvec(p["a"]), fvec(p["b"])
    out = []
    for name in SHIPPED:
        exp = term_value(p["vals"][name])
        forms = {"series": (pd.Series(a), pd.Series(b))}
        if p.get("frames", True):
            forms["frame"] = (pd.DataFrame({"x": a}), pd.DataFrame({"x": b}))
        for form, (sa, sb) in forms.items():
            with np.errstate(all="ignore"):
                try:
                    obs = float(_loss_fn(name)(sa, sb))
                except Exception as e:  # noqa: BLE001
                    obs = None
                    err = f"{type(e).__name__}: {e}"
            if exp is None:
                out.append({"name": name, "form": form, "status": "undefined"})
            elif obs is None:
                out.append({"name": name, "form": form, "status": "bad", "expected": exp, "observed": err})
            elif close(obs, exp, 1e-9, 1e-12):
                out.append({"name": name, "form": form, "status": "ok"})
            else:
                out.append({"name": name, "form": form, "status": "bad", "expected": exp, "observed": obs})
    return out


def loss_values(ctx: Ctx, rep: Report) -> None:
    cfgs = ["Losses_gen.cfg"] + ([] if ctx.quick else ["Losses_gen3.cfg"])
    cases = []
    for cfg in cfgs:
        res = _tlc(ctx, "Losses.tla", cfg)
        rep.add_tlc(res, f"gen: grid pairs with the exact value of every shipped loss ({cfg})")
        cases += res.payloads
    if len(cases) < 2000:
        raise MachineryError(f"only {len(cases)} loss value cases emitted")
    for j, c in enumerate(cases):
        c["frames"] = (not ctx.quick) or j % 4 == 0       # quick: the one-column-frame form for every fourth pair
    results = pmap(_value_case, cases, procs=WORKERS, chunk=128)
    undefined = 0
    for p, rs in zip(cases, results):
        rep.replayed += 1
        for r in rs:
            rep.evaluations += 1
            if r["status"] == "undefined":
                undefined += 1
                continue
            rep.distinct.add(("value", json.dumps([p["a"], p["b"]], sort_keys=True), r["name"], r["form"]))
            if r["status"] == "bad":
                scn = {"kind": "value", "loss": r["name"], "form": r["form"], "a": p["a"], "b": p["b"],
                       "term": p["vals"][r["name"]]}
                rep.mismatch(scn, {"expected": r["expected"], "observed": r["observed"]}, None)
    rep.notes["loss_value_cases_outside_domain"] = undefined
    rep.sample({"kind": "value", "a": cases[7]["a"], "b": cases[7]["b"],
                "rmse_term": cases[7]["vals"]["rmse"], "rmse_value": term_value(cases[7]["vals"]["rmse"])})


# ======================================================================================================
# 3. law counterexamples found by TLC, replayed on the real functions
# ======================================================================================================
def _law_values(c: dict):
    import pandas as pd

    f = _loss_fn(c["loss"])
    p, d = fvec(c["p"]), fvec(c["d"])
    c1, c2 = float(fr(c["c1"])), float(fr(c["c2"]))

    def L(pp, dd):
        sp, sd = pd.Series(pp), pd.Series(dd)
        return float(f(sp, sd) if c["orient"] == "pd" else f(sd, sp))

    if c["law"] == 1:
        return L(d, d), L(p, d)
    return L([c1 * x for x in p], d), L([c2 * x for x in p], d)


def _law_case(c: dict) -> dict:
    lo, hi = _law_values(c)
    return {"lo": lo, "hi": hi, "reproduced": lo > hi + 1e-12 * max(1.0, abs(lo), abs(hi)),
            "spec_lo": term_value(c["lo"]), "spec_hi": term_value(c["hi"])}


def classify_law(c: dict) -> str:
    return f"loss:{c['loss']}"


def law_counterexamples(ctx: Ctx, rep: Report) -> None:
    res = _tlc(ctx, "Losses.tla", "Losses_cex.cfg")
    rep.add_tlc(res, "gen: every counterexample to law 1 / law 2 for the shipped `mean` and `cosine_similarity` in the grid")
    cexs = res.payloads
    if not cexs:
        raise MachineryError("no law counterexamples emitted for mean / cosine_similarity")
    rnd = random.Random(ctx.seed)
    if ctx.quick and len(cexs) > 500:
        cexs = rnd.sample(cexs, 500)
    outs = pmap(_law_case, cexs, procs=WORKERS, chunk=128)
    hist: dict = {}
    for c, o in zip(cexs, outs):
        rep.replayed += 1
        rep.evaluations += 1
        rep.distinct.add(("law", json.dumps([c["law"], c["loss"], c["orient"], c["p"], c["d"], c["c1"], c["c2"]], sort_keys=True)))
        k = f"law{c['law']}/{c['loss']}/{c['orient']}"
        scn = {"kind": "law", "law": c["law"], "loss": c["loss"], "orient": c["orient"], "p": c["p"], "d": c["d"],
               "c1": c["c1"], "c2": c["c2"]}
        if not (close(o["lo"], o["spec_lo"], 1e-9, 1e-12) and close(o["hi"], o["spec_hi"], 1e-9, 1e-12)):
            # the real function no longer has the value the specification gives: a different problem
            rep.mismatch({**scn, "kind": "law-value"}, o, None)
            continue
        if o["reproduced"]:
            hist[k] = hist.get(k, 0) + 1
            rep.mismatch(scn, {"what": ("L(d,d) > L(p,d)" if c["law"] == 1 else "L(c1*p,d) > L(c2*p,d) with c1 <= c2"),
                               "lower_should_be": o["lo"], "but_exceeds": o["hi"]}, classify_law(c))
        else:
            raise MachineryError(f"TLC's counterexample is not reproduced by a function with the same values: {c} {o}")
    rep.notes["law_counterexamples_reproduced_on_real_functions"] = hist


# ======================================================================================================
# 4. residuals: scenario x loss x scaling through the public fit routines
# ======================================================================================================
def _floats(groups):
    return [[float(fr(v)) for v in g] for g in groups]


def _tolerance(scn: dict, name: str, scaled: bool) -> float:
    """Absolute tolerance on a loss value from an absolute prediction error delta (after an ODE solve)."""
    data, pred = _floats(scn["data"]), _floats(scn["pred"])
    allv = [abs(v) for g in data + pred for v in g]
    big = max(1.0, max(allv))
    delta = 1e-6 * big + 1e-9            # DESIGN section 4: 1e-6 relative + 1e-9 absolute after an ODE solve
    inv_sd = 1.0
    means = [0.0] * len(data)
    if scaled:
        sds = []
        for j, g in enumerate(data):
            mu = sum(g) / len(g)
            means[j] = mu
            sds.append(math.sqrt(sum((x - mu) ** 2 for x in g) / (len(g) - 1)))
        inv_sd = 1.0 / min(sds)
    n = sum(len(g) for g in data)
    if name in ("mean", "mae", "rmse"):
        amp = inv_sd
    elif name == "mean_squared":
        amp = 2 * (2 * big) * inv_sd ** 2
    elif name == "mean_absolute_percentage":
        divs = [abs(x - means[j]) for grp in (data, pred) for j, g in enumerate(grp) for x in g]
        mind = max(min(divs), 1.0 / 16)
        amp = 100.0 * (1.0 / mind + 2 * big / mind ** 2)
    elif name == "mean_squared_logarithmic":
        amp = 2 * math.log(2 + 2 * big) * 1.0
    else:  # cosine_similarity: |d| * |delta vector|
        amp = math.sqrt(n) * big * math.sqrt(n) * inv_sd ** 2
    return delta * amp


def _residual_case(scn: dict) -> list[dict]:
    import numpy as np

    model, kind, kw, p_true, p_cand = build(scn)
    before = content_of(model)
    out = []
    # "a function of the candidate": the unscaled cases are evaluated AFTER an evaluation at another candidate (the truth,
    # or a displaced copy of it) in the same call -- the value must not remember where the working model has been
    other = dict(p_true) if p_true != p_cand else {k: (v * 2.0 if v else 3.0) for k, v in p_true.items()}
    for name in SHIPPED:
        for scl in ("plain", "scaled"):
            e = scn["exp"][name][scl]
            vdp, vpd = term_value(e["dp"]), term_value(e["pd"])
            base = {"loss": name, "scaled": scl == "scaled"}
            if vdp is None:
                out.append({**base, "status": "undefined"})
                continue
            if e["fragile"]:
                out.append({**base, "status": "fragile"})
                continue
            with np.errstate(all="ignore"):
                try:
                    obs = evaluate_at(model, kind, kw, p_cand, name, scl == "scaled",
                                      before=other if scl == "plain" else None)
                except Exception as ex:  # noqa: BLE001
                    out.append({**base, "status": "bad", "expected": {"dp": vdp, "pd": vpd},
                                "observed": f"{type(ex).__name__}: {ex}"[:300]})
                    continue
            tol = _tolerance(scn, name, scl == "scaled")
            # ONE call site wires every loss, scaled and unscaled: loss_fn(data, prediction).  The laws decide that order
            # (Losses.tla, Law3: only data-first is lawful for the asymmetric percentage loss), so the residual must be
            # the data-first value; "asym" counts the cases where the other order would give a different number.
            okdp = vdp is not None and close(obs, vdp, 1e-6, tol)
            differ = vdp is not None and vpd is not None and not close(vdp, vpd, 1e-6, 10 * tol)
            if okdp:
                out.append({**base, "status": "ok", "orient": ("asym" if differ else "sym")})
            else:
                out.append({**base, "status": "bad", "expected": {"dp": vdp, "pd": vpd}, "observed": obs, "tolerance": tol})
    after = content_of(model, invalidate=True)
    if before != after:
        out.append({"loss": "*", "scaled": False, "status": "bad", "expected": before, "observed": after,
                    "what": "caller's model (stored content, or what it computes with after a no-op edit) changed by an "
                            "evaluation through the fit routine (as_deepcopy default)"})
    return out


def classify_residual(scn: dict, r: dict) -> str | None:
    if r["loss"] == "cosine_similarity" and scn["sc"]["shape"] in ("tc", "ptc") and isinstance(r.get("observed"), float):
        return "residual:cosine_similarity/extra-rows"
    return None


def slim(scn: dict, loss: str | None = None, scl: str | None = None) -> dict:
    out = {"kind": "residual", "sc": scn["sc"], "kin": scn["kin"], "As": scn["As"], "data": scn["data"],
           "pred": scn["pred"], "generated": scn["generated"], "minit": scn["minit"], "y0": scn["y0"]}
    if loss and loss in scn["exp"]:
        out["exp"] = {loss: {scl: scn["exp"][loss][scl]}}
        out["loss"], out["scl"] = loss, scl
    return out


def writes_init(scn: dict) -> str:
    """Does evaluating this scenario write an initial value (fitted variable and/or y0)?"""
    srcs = scn["sc"]["srcs"]
    fitted = any(x in ("p0", "p0y0") for x in srcs)
    y0 = any(x in ("y0", "p0y0") for x in srcs)
    return "fitted+y0" if fitted and y0 else "fitted" if fitted else "y0" if y0 else "none"


def nontrivial(scn: dict) -> bool:
    sc = scn["sc"]
    return sc["jc"] != sc["jt"] or sc["x0c"] != sc["x0"] or not scn["generated"]


def scenarios(ctx: Ctx, rep: Report) -> list[dict]:
    cfg = "FitModels_quick.cfg" if ctx.quick else "FitModels_full.cfg"
    res = _tlc(ctx, "FitModels.tla", cfg, coverage=False)
    rep.add_tlc(res, f"gen: identifiable linear models, closed-form predictions, expected residuals for every loss ({cfg}); "
                     "ZeroAtTruth and SymmetricAgree checked on every one-group scenario")
    scns = [norm_scenario(p) for p in res.payloads]
    if len(scns) < 300:
        raise MachineryError(f"only {len(scns)} residual scenarios emitted")
    shapes = {s["sc"]["shape"] for s in scns}
    if shapes != {"ss", "ssc", "tc", "ptc"}:
        raise MachineryError(f"scenario family lacks a shape: {shapes}")
    return scns


def residuals(ctx: Ctx, rep: Report, scns: list[dict]) -> None:
    rnd = random.Random(ctx.seed + 1)
    pick = scns
    cap = 320 if ctx.quick else 3000
    if len(pick) > cap:
        by = {}
        for s in pick:
            by.setdefault((s["sc"]["shape"], s["sc"]["n"], writes_init(s), s["sc"]["fitk"]), []).append(s)
        pick = []
        share = cap // len(by)
        for k in sorted(by):
            pick += by[k] if len(by[k]) <= share else rnd.sample(by[k], share)
    results = pmap(_residual_case, pick, procs=WORKERS, chunk=8)
    hist = {"ok": 0, "undefined": 0, "fragile": 0, "bad": 0}
    orient = {"sym": 0, "asym": 0}
    for scn, rs in zip(pick, results):
        rep.replayed += 1
        for r in rs:
            rep.evaluations += 1
            hist[r["status"]] += 1
            if r["status"] == "ok":
                orient[r["orient"]] += 1
                if nontrivial(scn):
                    rep.distinct.add(("res", json.dumps(scn["sc"], sort_keys=True), r["loss"], r["scaled"]))
            elif r["status"] == "bad":
                scl = "scaled" if r["scaled"] else "plain"
                rep.mismatch(slim(scn, r["loss"], scl),
                             {k: v for k, v in r.items() if k != "status"}, classify_residual(scn, r))
    rep.notes["residual_cases"] = hist
    rep.notes["residual_argument_order"] = {
        **orient, "meaning": "every residual is compared with loss_fn(data, prediction); asym = cases in which "
                             "loss_fn(prediction, data) is a different number (percentage loss, signed mean)"}
    if orient["asym"] < 100:
        raise MachineryError(f"too few residual cases in which the argument order matters: {orient}")
    if hist["ok"] + hist["bad"] < 1500:
        raise MachineryError(f"too few residual cases decided: {hist}")
    s = pick[len(pick) // 2]
    rep.sample({"kind": "residual", "sc": s["sc"], "data": _floats(s["data"]), "prediction": _floats(s["pred"]),
                "expected_rmse_scaled": term_value(s["exp"]["rmse"]["scaled"]["dp"])})


# ======================================================================================================
# 4b. joint fits: per-experiment overrides of the shared defaults (FitJoint.tla)
# ======================================================================================================
def _other_defaults(d: dict) -> dict:
    """Shared defaults of an EARLIER call on the same settings list: another loss, another y0."""
    return {"loss": "mae" if d["loss"] == "rmse" else "rmse",
            "y0": {"n": 5, "d": 1} if int(d["y0"]["d"]) == 0 else {"n": 0, "d": 0}}


def _joint_case(js: dict) -> list[dict]:
    """plain: the kind's joint_* routine, as the SECOND call on a settings list that an earlier call with other shared
    defaults has already seen (histories); scaled: fit.joint_mixed on MixedSettings.  Either way the caller's settings
    objects and models must be what they were."""
    import numpy as np
    from mxlpy import fit

    out = []
    for scl in ("plain", "scaled"):
        terms = [e[scl] for e in js["exp"]]
        vals = [term_value(t) for t in terms]
        mixed = scl == "scaled"
        base = {"scaled": scl == "scaled", "routine": "joint_mixed" if mixed else "joint_*", "history": not mixed}
        if any(v is None for v in vals):
            out.append({**base, "status": "undefined"})
            continue
        exp = math.fsum(vals)
        routine, to_fit, kwargs, p0 = build_joint(js, mixed=mixed)
        base["routine"] = routine
        before = [content_of(s.model) for s in to_fit]
        wrote = settings_view(to_fit)
        with np.errstate(all="ignore"):
            try:
                if not mixed:       # an earlier call with other defaults on the SAME list
                    _, _, kw1, _ = build_joint(js, mixed=False, defaults=_other_defaults(js["dflt"]))
                    getattr(fit, routine)(to_fit, p0=dict(p0), minimizer=Probe([p0]), max_workers=2,
                                          standard_scale=False, **kw1)
                    if settings_view(to_fit) != wrote:
                        out.append({**base, "status": "bad", "what": "the caller's settings objects were changed by a call",
                                    "expected": wrote, "observed": settings_view(to_fit)})
                res = getattr(fit, routine)(to_fit, p0=dict(p0), minimizer=Probe([p0]), max_workers=2,
                                            standard_scale=scl == "scaled", **kwargs)
                val = res.value
                if isinstance(val, Exception):
                    raise val
                obs = float(val.loss)
            except Exception as ex:  # noqa: BLE001
                out.append({**base, "status": "bad", "expected": exp, "observed": f"{type(ex).__name__}: {ex}"[:300]})
                continue
        tol = sum(_tolerance({"data": d, "pred": p}, eff["loss"], scl == "scaled")
                  for d, p, eff in zip(js["data"], js["pred"], js["eff"]))
        if close(obs, exp, 1e-6, tol):
            out.append({**base, "status": "ok"})
        else:
            out.append({**base, "status": "bad", "expected": exp, "per_experiment": vals, "observed": obs, "tolerance": tol})
        if settings_view(to_fit) != wrote:
            out.append({**base, "status": "bad", "what": "the caller's settings objects were changed by the call",
                        "expected": wrote, "observed": settings_view(to_fit)})
        after = [content_of(s.model, invalidate=True) for s in to_fit]
        if before != after:
            out.append({**base, "status": "bad", "what": "an experiment's model changed (as_deepcopy default)",
                        "expected": before, "observed": after})
    return out


def slim_joint(js: dict) -> dict:
    return {"kind": "joint", **{k: js[k] for k in ("exps", "dflt", "jc", "jt", "A", "prot", "times", "x2", "eff", "data",
                                                     "pred", "exp", "leakshape", "j4t", "j4c", "anyrich")}, "shape": js["kind"]}


def joint(ctx: Ctx, rep: Report) -> None:
    res = _tlc(ctx, "FitJoint.tla", "FitJoint_leaky.cfg", expect_violation=True, workers=4)
    if res.violated != "OrderFree":
        raise MachineryError(f"FitJoint_leaky.cfg: the loop-carried default should violate OrderFree, TLC reported {res.violated}")
    rep.add_tlc(res, "expected counterexample: an override that stays in force for the following experiments makes the "
                     "settings depend on the order of the experiments")
    res = _tlc(ctx, "FitJoint.tla", "FitJoint_writeback.cfg", expect_violation=True, workers=4)
    if res.violated != "HistoryFree":
        raise MachineryError(f"FitJoint_writeback.cfg: writing the defaults into the caller's settings should violate HistoryFree, "
                             f"TLC reported {res.violated}")
    rep.add_tlc(res, "expected counterexample: a call that writes the shared defaults into the caller's settings objects makes a "
                     "later call on the same list depend on the earlier one (and changes the caller's input)")
    res = _tlc(ctx, "FitJoint.tla", "FitJoint_three.cfg")
    rep.add_tlc(res, "joint fits, three experiments, all permutations: the settings of an experiment are its own override or "
                     "the shared default, wherever it stands (OrderFree); LeakMatters")
    res = _tlc(ctx, "FitJoint.tla", "FitJoint_quick.cfg" if ctx.quick else "FitJoint_full.cfg")
    rep.add_tlc(res, "gen: joint scenarios (two experiments, every combination of overrides / defaults / order) with the exact "
                     "residual term of every experiment")
    scns = [norm_joint(p) for p in res.payloads]
    if len(scns) < 2000:
        raise MachineryError(f"only {len(scns)} joint scenarios emitted")
    rnd = random.Random(ctx.seed + 3)
    by: dict = {}
    for s in scns:
        by.setdefault((s["kind"], bool(s["leakshape"]), bool(s["anyrich"])), []).append(s)
    per = 2 if ctx.quick else 30
    pick = []
    for k in sorted(by):
        pick += by[k] if len(by[k]) <= per else rnd.sample(by[k], per)
    import multiprocessing as mp
    from concurrent.futures import ProcessPoolExecutor

    hist = {"ok": 0, "undefined": 0, "bad": 0}
    with ProcessPoolExecutor(max_workers=4, mp_context=mp.get_context("fork")) as ex:   # joint fits start process pools
        for js, rs in zip(pick, ex.map(_joint_case, pick)):
            rep.replayed += 1
            for r in rs:
                rep.evaluations += 1
                hist[r["status"]] += 1
                if r["status"] == "ok":
                    rep.distinct.add(("joint", json.dumps([js["kind"], js["exps"], js["dflt"], js["jc"]], sort_keys=True), r["scaled"]))
                elif r["status"] == "bad":
                    rep.mismatch({**slim_joint(js), "scaled": r["scaled"]}, {k: v for k, v in r.items() if k != "status"}, None)
    rep.notes["joint_fit_cases"] = {**hist, "scenarios": len(pick),
                                    "with_an_override_before_an_experiment_without": sum(1 for s in pick if s["leakshape"])}
    if hist["ok"] + hist["bad"] < 40:
        raise MachineryError(f"too few joint cases decided: {hist}")
    s = next(x for x in pick if x["leakshape"])
    rep.sample({"kind": "joint", "routine": s["kind"], "experiments": s["exps"], "defaults": s["dflt"], "effective": s["eff"]})


# ======================================================================================================
# 4c. ensemble / carousel fits: a wrapper forwards every option (FitEnsemble.tla)
# ======================================================================================================
def _ensemble_case(es: dict) -> list[dict]:
    import multiprocessing

    import numpy as np
    from mxlpy import fit

    multiprocessing.cpu_count = lambda: 2          # the wrappers size their worker pools by it (harness-side only)
    devnull = os.open(os.devnull, os.O_WRONLY)     # ... and cannot switch their progress bars off: this dedicated worker
    os.dup2(devnull, 2)                            # process (and the pools it starts) writes its stderr to /dev/null
    out = []
    exps = [term_value(t) for t in es["exp"]]
    if any(v is None for v in exps):
        return [{"entry": "*", "status": "undefined"}]
    want = [es["twice"] * v for v in exps]
    for as_carousel in (False, True):
        routine, first, kwargs, p0 = build_ensemble(es, as_carousel)
        models = first.variants if as_carousel else first
        before = [content_of(m) for m in models]
        base = {"entry": routine}
        with np.errstate(all="ignore"):
            try:
                res = getattr(fit, routine)(first, p0=dict(p0), minimizer=Probe([p0]), **kwargs)
                obs = [float(f.loss) for f in res.fits]
            except Exception as ex:  # noqa: BLE001
                out.append({**base, "status": "bad", "expected": want, "observed": f"{type(ex).__name__}: {ex}"[:300]})
                continue
        tols = [es["twice"] * _tolerance({"data": es["data"], "pred": p}, es["opt"]["loss"], True) for p in es["pred"]]
        if len(obs) == len(want) and all(close(o, w, 1e-6, t) for o, w, t in zip(obs, want, tols)):
            out.append({**base, "status": "ok"})
        else:
            out.append({**base, "status": "bad", "expected": want, "observed": obs, "tolerance": tols})
        after = [content_of(m, invalidate=True) for m in models]
        if before != after:
            out.append({**base, "status": "bad", "what": "a member model changed", "expected": before, "observed": after})
    return out


def ensemble(ctx: Ctx, rep: Report) -> None:
    for d in ("loss", "y0", "resid"):
        res = _tlc(ctx, "FitEnsemble.tla", f"FitEnsemble_drop_{d}.cfg", expect_violation=True, workers=4)
        if res.violated != "Forwards":
            raise MachineryError(f"FitEnsemble_drop_{d}.cfg: a wrapper that drops `{d}` should violate Forwards, TLC reported {res.violated}")
        rep.add_tlc(res, f"expected counterexample: an ensemble wrapper that does not pass `{d}` on to the member fits")
    res = _tlc(ctx, "FitEnsemble.tla", "FitEnsemble_contract.cfg", workers=8)
    rep.add_tlc(res, "ensemble / carousel fits: every member is evaluated with the options the caller chose (Forwards); gen: "
                     "members x loss x y0 x residual function x model initial value with each member's exact residual")
    scns = [norm_ensemble(p) for p in res.payloads]
    if len(scns) < 200:
        raise MachineryError(f"only {len(scns)} ensemble scenarios emitted")
    rnd = random.Random(ctx.seed + 4)
    by: dict = {}
    for s in scns:
        by.setdefault((s["kind"], s["opt"]["loss"]), []).append(s)        # every kind with every loss
    per = 3 if ctx.quick else 12
    pick = []
    for k in sorted(by):
        pick += by[k] if len(by[k]) <= per else rnd.sample(by[k], per)
    import multiprocessing as mp
    from concurrent.futures import ProcessPoolExecutor

    hist = {"ok": 0, "undefined": 0, "bad": 0}
    with ProcessPoolExecutor(max_workers=4, mp_context=mp.get_context("fork")) as ex:
        for es, rs in zip(pick, ex.map(_ensemble_case, pick)):
            rep.replayed += 1
            for r in rs:
                rep.evaluations += 1
                hist[r["status"]] += 1
                if r["status"] == "ok":
                    rep.distinct.add(("ensemble", json.dumps([es["kind"], es["mem"], es["opt"]], sort_keys=True), r["entry"]))
                elif r["status"] == "bad":
                    scn = {"kind": "ensemble", "shape": es["kind"], **{k: es[k] for k in
                           ("mem", "opt", "jt", "jc", "A", "prot", "times", "x2", "data", "pred", "twice", "exp")}, "entry": r["entry"]}
                    rep.mismatch(scn, {k: v for k, v in r.items() if k != "status"}, None)
    rep.notes["ensemble_fit_cases"] = {**hist, "scenarios": len(pick), "entry_points_per_scenario": 2}
    if hist["ok"] + hist["bad"] < 30:
        raise MachineryError(f"too few ensemble cases decided: {hist}")


# ======================================================================================================
# 5. recorded fits -> FitTrace
# ======================================================================================================
def fit_cases(ctx: Ctx, scns: list[dict]) -> list[dict]:
    rnd = random.Random(ctx.seed + 2)
    # (a fitted initial value of exactly 0 sits on scipy's default lower bound 1e-6: left to the residual stage)
    usable = [s for s in scns
              if not any(src in ("p0", "p0y0") and fr(x) == 0 for src, x in zip(s["sc"]["srcs"], s["sc"]["x0c"]))]
    by: dict = {}
    for s in usable:
        by.setdefault(s["sc"]["shape"], {}).setdefault((writes_init(s), s["sc"]["fitk"]), []).append(s)
    per_shape = 20 if ctx.quick else 160
    cases = []
    for shape in sorted(by):
        groups = by[shape]
        chosen = []
        share = max(1, per_shape // len(groups))       # fits that write initial values (fitted / y0) get an equal share
        for g in sorted(groups):
            pool = groups[g]
            chosen += pool if len(pool) <= share else rnd.sample(pool, share)
        for j, s in enumerate(chosen):
            losses_ok = [nm for nm in LAWFUL if term_value(s["exp"][nm]["plain"]["dp"]) is not None]
            loss = losses_ok[j % len(losses_ok)]
            scaled = (j // len(losses_ok)) % 2 == 0 and term_value(s["exp"][loss]["scaled"]["dp"]) is not None \
                and not s["exp"][loss]["scaled"]["fragile"]
            method = "L-BFGS-B" if j % 4 else "Nelder-Mead"
            cases.append({"scn": slim(s), "loss": loss, "scaled": bool(scaled), "method": method,
                          "copy": j % 7 != 3, "id": len(cases), "reverse": j % 2 == 0})     # p0 keys not alphabetical
    # the unlawful losses may still be used for fitting: what is reported must be honest all the same
    extra = [s for s in by.get("ss", {}).get(("none", True), []) if s["generated"]][:4 if ctx.quick else 24]
    for j, s in enumerate(extra):
        cases.append({"scn": slim(s), "loss": ["mean", "cosine_similarity"][j % 2], "scaled": False, "method": "L-BFGS-B",
                      "copy": True, "id": len(cases), "bounded": True})
    return cases


def run_fit(case: dict) -> dict:
    """Run one real fit under the recorders; returns the trace."""
    import numpy as np
    from mxlpy import fit
    from mxlpy.fit import losses, routines

    scn = case["scn"]
    model, kind, kw, p_true, p_cand = build(scn)
    if case.get("reverse"):
        p_cand = dict(reversed(list(p_cand.items())))        # the caller's key order (x.., k2, k1): not alphabetical
    names = list(p_cand)
    loss_fn = getattr(losses, case["loss"])
    ev = [{"k": "entry", "content": content_of(model)}]
    with np.errstate(all="ignore"):
        l0 = evaluate_at(copy.deepcopy(model), kind, kw, p_cand, case["loss"], case["scaled"])
        ev.append(event("start", names, p_cand, l0))
        loss_log: list = []
        rec = RecordingResidual(getattr(routines, f"{kind}_residual"), names, loss_log)
        extra = {}
        if case.get("bounded"):
            extra["bounds"] = {n: (0.25, 8.0) for n in names}
        res = getattr(fit, kind)(model, p0=dict(p_cand), minimizer=fit.LocalScipyMinimizer(method=case["method"]),
                                 residual_fn=rec, loss_fn=RecordingLoss(loss_fn, loss_log),
                                 standard_scale=case["scaled"], as_deepcopy=case["copy"], **extra, **kw)
        ev += rec.events
        val = res.value
        if isinstance(val, Exception):
            ev.append({"k": "fail"})
        else:
            best = {n: float(val.best_pars[n]) for n in names}
            ev.append(event("report", names, best, float(val.loss)))
            fresh, kind2, kw2, _, _ = build(scn)
            l1 = evaluate_at(fresh, kind2, kw2, best, case["loss"], case["scaled"])
            ev.append(event("reeval", names, best, l1))
        ev.append({"k": "exit", "content": content_of(model, invalidate=True)})
    lo, hi = (0.25, 8.0) if case.get("bounded") else (1e-6, 1e6)
    p0in = all(lo <= v <= hi for v in p_cand.values())
    return {"id": case["id"], "copy": bool(case["copy"]), "generated": bool(scn["generated"]), "p0in": bool(p0in), "ev": ev}


def run_fit_outside_bounds(case: dict) -> dict:
    """A fit whose starting point is the TRUTH but lies outside LocalScipyMinimizer's implicit default bounds
    (1e-6, 1e6): a pool with a NEGATIVE inflow a1 (the statement: never a loss worse than the starting point's).  The data
    come from the real simulator at the truth; the trace clauses need no closed form."""
    import numpy as np
    from mxlpy import Model, Simulator, fit
    from mxlpy.fit import losses, routines

    def model():
        m = Model()
        m.add_variable("x1", 1.0)
        m.add_parameters({"a1": case["a1"], "k1": 1.0})
        m.add_reaction("in1", const_fn, args=["a1"], stoichiometry={"x1": 1.0})
        m.add_reaction("out1", mass_action_fn, args=["k1", "x1"], stoichiometry={"x1": -1.0})
        return m

    from ..fitkit import const as const_fn, mass_action as mass_action_fn
    m = model()
    times = [1.0, 2.0, 3.0]
    data = Simulator(model()).simulate_time_course(times).get_result().value.get_combined().loc[times, ["x1"]]
    p0 = {"a1": case["a1"]}
    names = list(p0)
    kw = {"data": data}
    ev = [{"k": "entry", "content": content_of(m)}]
    with np.errstate(all="ignore"):
        l0 = evaluate_at(copy.deepcopy(m), "time_course", kw, p0, "rmse", False)
        ev.append(event("start", names, p0, l0))
        log: list = []
        rec = RecordingResidual(routines.time_course_residual, names, log)
        res = fit.time_course(m, p0=dict(p0), minimizer=fit.LocalScipyMinimizer(), residual_fn=rec,
                              loss_fn=RecordingLoss(losses.rmse, log), standard_scale=False, **kw)
        ev += rec.events
        val = res.value
        if isinstance(val, Exception):
            ev.append({"k": "fail"})
        else:
            best = {n: float(val.best_pars[n]) for n in names}
            ev.append(event("report", names, best, float(val.loss)))
            ev.append(event("reeval", names, best, evaluate_at(model(), "time_course", kw, best, "rmse", False)))
        ev.append({"k": "exit", "content": content_of(m, invalidate=True)})
    return {"id": case["id"], "copy": True, "generated": True, "p0in": False, "ev": ev}


def validate_traces(ctx: Ctx, rep: Report, traces: list[dict], tag: str, what: str) -> dict:
    verdicts: dict = {}
    for lo in range(0, len(traces), 400):
        tf = ctx.work / f"traces_{tag}_{lo}.json"
        tf.write_text(json.dumps(traces[lo:lo + 400]))
        res = _tlc(ctx, "FitTrace.tla", "FitTrace.cfg", tag=f"trace_{tag}_{lo}", env={"TRACE_FILE": str(tf)}, workers=1)
        rep.add_tlc(res, what)
        for p in res.payloads:
            v = verdicts.setdefault(p["id"], {"l": 0, "accept": False, "byeval": False})
            v["l"] = max(v["l"], p["l"])
            v["accept"] = v["accept"] or bool(p["accept"])
            v["byeval"] = v["byeval"] or bool(p["byeval"])
    if len(verdicts) != len(traces):
        raise MachineryError(f"FitTrace judged {len(verdicts)} of {len(traces)} traces")
    return verdicts


def classify_trace(case: dict, trace: dict, verdict: dict) -> str | None:
    """Finding key from the SHAPE of the rejected fit."""
    if case.get("outside_bounds"):
        # the start lies outside the minimiser's implicit default bounds and the rejected event is the report
        ev = trace["ev"][verdict["l"] - 1] if verdict["l"] - 1 < len(trace["ev"]) else {}
        if ev.get("k") == "report":
            return "start-outside-implicit-bounds"
    return None


def corruptions(trace: dict) -> list[tuple[str, dict]]:
    out = []
    idx = {e["k"]: i for i, e in enumerate(trace["ev"])}
    if "report" in idx:
        t = copy.deepcopy(trace)
        e = t["ev"][idx["report"]]
        e["lu"] = min(CAP, e["lu"] + 5000)
        e["lh"] = (float.fromhex(e["lh"]) + 5e-3).hex()
        out.append(("reported loss raised by 5e-3", t))
        t = copy.deepcopy(trace)
        e = t["ev"][idx["reeval"]]
        e["lu"] = min(CAP, e["lu"] + 5000)
        out.append(("recomputed loss differs from the reported one", t))
        t = copy.deepcopy(trace)
        e = t["ev"][idx["report"]]
        e["lu"] = min(CAP, t["ev"][idx["start"]]["lu"] + 100000)
        t["ev"][idx["reeval"]]["lu"] = e["lu"]
        t["generated"] = True
        out.append(("reported loss worse than the starting point's", t))
    first = next((i for i, e in enumerate(trace["ev"]) if e["k"] == "eval"), None)
    if first is not None and trace.get("p0in") and len(set(trace["ev"][first]["ps"])) >= 2:
        t = copy.deepcopy(trace)
        t["ev"][first]["ps"] = list(reversed(t["ev"][first]["ps"]))
        out.append(("first evaluation at a permutation of the caller's p0", t))
    t = copy.deepcopy(trace)
    t["copy"] = True
    t["ev"][-1]["content"] = list(t["ev"][-1]["content"][:-1]) + ["v:x1=0x1.8p+1"]
    out.append(("caller's model content changed at exit", t))
    return out


def traces(ctx: Ctx, rep: Report, scns: list[dict]) -> None:
    cases = fit_cases(ctx, scns)
    trs = pmap(run_fit, cases, procs=WORKERS, chunk=2)
    for a1 in (-0.2, -1.0):          # the truth as the starting point, outside the implicit default bounds (1e-6, 1e6)
        c = {"id": len(cases), "outside_bounds": True, "a1": a1, "loss": "rmse", "scaled": False, "method": "L-BFGS-B",
             "copy": True, "scn": {"sc": {"custom": "pool with negative inflow, start = truth", "a1": a1}}}
        cases.append(c)
        trs.append(run_fit_outside_bounds(c))
    verdicts = validate_traces(ctx, rep, trs, "fits", "trace validation: recorded fits (LocalScipyMinimizer) against FitCore clauses")
    failed = sum(1 for t in trs if any(e["k"] == "fail" for e in t["ev"]))
    evals = sum(1 for t in trs for e in t["ev"] if e["k"] == "eval")
    byeval = 0
    first_ok = None
    for case, tr in zip(cases, trs):
        v = verdicts[tr["id"]]
        rep.evaluations += 1
        rep.distinct.add(("trace", json.dumps([case["scn"]["sc"], case["loss"], case["scaled"], case["method"], case["copy"]],
                                              sort_keys=True)))
        if v["accept"]:
            rep.traces += 1
            byeval += v["byeval"]
            if first_ok is None and any(e["k"] == "report" for e in tr["ev"]):
                first_ok = tr
        else:
            bad_ev = tr["ev"][v["l"] - 1] if v["l"] - 1 < len(tr["ev"]) else None
            ctxt = {k: [e for e in tr["ev"] if e["k"] == k] for k in ("start", "report", "reeval")}
            rep.mismatch({"kind": "trace", **case},
                         {"matched_prefix": v["l"] - 1, "events": len(tr["ev"]), "rejected_event": bad_ev, **ctxt,
                          "entry": tr["ev"][0], "exit": tr["ev"][-1]},
                         classify_trace(case, tr, v))
    rep.notes["fits_recorded"] = len(trs)
    rep.notes["fits_reported_failure(no report; outside the claim)"] = failed
    rep.notes["residual_evaluations_recorded"] = evals
    rep.notes["reports_identical_to_a_recorded_evaluation"] = byeval
    rejected = len(trs) - rep.traces
    if first_ok is None:
        if rejected == 0:
            raise MachineryError("no trace with a report: nothing was validated")
        rep.notes["corrupted_traces_rejected"] = "skipped: no recorded fit was accepted (the rejections are reported)"
        return
    if failed > len(trs) // 2 and rejected == 0:
        raise MachineryError("more than half of the fits reported failure: the family is not exercising the report path")
    rep.sample({"kind": "trace", "events": len(first_ok["ev"]), "start": first_ok["ev"][1],
                "report": [e for e in first_ok["ev"] if e["k"] == "report"][0]})
    # ---- the binding has teeth: corrupted copies of an accepted trace must be rejected --------------------
    cor = corruptions(first_ok)
    for j, (_, t) in enumerate(cor):
        t["id"] = j
    cv = validate_traces(ctx, rep, [t for _, t in cor], "corrupt", "self-test: corrupted copies of an accepted trace must be rejected")
    notes = []
    for j, (what, _) in enumerate(cor):
        if cv[j]["accept"]:
            raise MachineryError(f"corrupted trace accepted by FitTrace ({what}): the trace specification has no teeth")
        notes.append(f"{what}: rejected at event {cv[j]['l']}")
    rep.notes["corrupted_traces_rejected"] = notes


# ======================================================================================================
def run(ctx: Ctx) -> int:
    rep = Report(ctx)
    rep.rule = RULE
    rep.assumptions = [
        "the residual's argument order is loss_fn(data, prediction) for every loss, scaled and unscaled: one wiring serves all "
        "losses and TLC shows (Law3) that only data-first is lawful for the asymmetric mean_absolute_percentage",
        "law 2 is stated for non-negative data and predictions p >= d component-wise (concentrations)",
        "losses on standardised data are undefined when a data group has fewer than two entries or zero variance; the "
        "logarithmic loss is undefined on standardised data; such cases are outside the specification (counted)",
        "time-course parameters are multiples of ln 2 so that every prediction is an exact rational at integer times",
        "numeric leaves evaluated by the harness: sqrt, log, Fraction->float, final summation of unsummed terms",
        "comparison after an ODE solve: 1e-6 relative on the loss + the loss's sensitivity to a 1e-6 relative / 1e-9 absolute prediction error",
        "convergence of scipy's minimisers is outside the claim",
    ]
    import time

    stages = {}
    t0 = time.time()

    def lap(name):
        nonlocal t0
        stages[name] = round(time.time() - t0, 1)
        t0 = time.time()

    mc(ctx, rep)
    lap("model checking")
    loss_values(ctx, rep)
    lap("loss values")
    law_counterexamples(ctx, rep)
    lap("law counterexamples")
    scns = scenarios(ctx, rep)
    lap("scenario generation")
    residuals(ctx, rep, scns)
    lap("residual replay")
    joint(ctx, rep)
    lap("joint fits")
    ensemble(ctx, rep)
    lap("ensemble / carousel fits")
    traces(ctx, rep, scns)
    lap("recorded fits + trace validation")
    rep.notes["stage_wall_s"] = stages
    return rep.finish()


def replay(ctx: Ctx, doc: dict) -> int:
    scn = doc["scenario"]
    kind = scn.get("kind")
    bad = None
    if kind == "value":
        rs = _value_case({"a": scn["a"], "b": scn["b"], "vals": {n: (scn["term"] if n == scn["loss"] else {"k": "undef"}) for n in SHIPPED}})
        bad = [r for r in rs if r["status"] == "bad"]
    elif kind in ("law", "law-value"):
        lo, hi = _law_values(scn)
        print(json.dumps({"lower_should_be": lo, "upper": hi}))
        bad = lo > hi + 1e-12 * max(1.0, abs(lo), abs(hi))
    elif kind == "residual":
        full = {**scn, "exp": {n: {s: {"dp": {"k": "undef"}, "pd": {"k": "undef"}, "fragile": False} for s in ("plain", "scaled")}
                               for n in SHIPPED}}
        for n, by in scn.get("exp", {}).items():
            for s, e in by.items():
                full["exp"][n][s] = e
        rs = _residual_case(full)
        bad = [r for r in rs if r["status"] == "bad"]
    elif kind == "ensemble":
        rs = _ensemble_case({**scn, "kind": scn["shape"]})
        bad = [r for r in rs if r["status"] == "bad"]
    elif kind == "joint":
        js = {**scn, "kind": scn["shape"]}
        rs = _joint_case(js)
        bad = [r for r in rs if r["status"] == "bad"]
    elif kind == "trace":
        rep = Report(ctx)
        tr = run_fit_outside_bounds(scn) if scn.get("outside_bounds") else run_fit(scn)
        v = validate_traces(ctx, rep, [tr], "replay", "replay")[tr["id"]]
        print(json.dumps({"verdict": v, "events": len(tr["ev"])}))
        bad = not v["accept"]
    else:
        raise MachineryError(f"unknown scenario kind {kind}")
    print(json.dumps({"observed_disagreement": bad}, indent=1, default=str))
    if bad:
        print("VIOLATION property=C20 replay=(given)")
        return 1
    print("conforms")
    return 0
