---------------------------- MODULE CacheTrace ----------------------------
(***************************************************************************)
(* C19, code -> spec: batched validation of recorded executions of the     *)
(* real cache-backed parallelise()/scan.steady_state() against the actions *)
(* of CacheCrash.                                                          *)
(*                                                                         *)
(* A trace is the sequence of events logged through the public Cache       *)
(* callbacks (name_fn = key taken, load_fn begin/end, save_fn begin/end)   *)
(* and the mapped function (compute), over several runs of one cache       *)
(* directory, interleaved with what the harness did and saw: "crash" (the  *)
(* run was killed), "dir" (class of every key's final path as the          *)
(* library's loader sees it), "end" (the run returned; ok = no exception,  *)
(* same = results equal the uncached run), "newrun", "fin".                *)
(*                                                                         *)
(* Steps that have no callback (existence test, open, write, close,        *)
(* rename, return) are silent: TLC searches over them.  The design is not  *)
(* prescribed: a trace is accepted if it is a behaviour of ANY instance    *)
(* that satisfies the property (temp/trust, temp/validate,                 *)
(* direct/validate); Init excludes only direct/trust.  Hence a trace is    *)
(* rejected exactly when a run raises or returns something else than the   *)
(* uncached results, when a run after a completed run computes, or when    *)
(* the callbacks fire in an order no such design can produce.              *)
(***************************************************************************)
EXTENDS CacheCrash, IOUtils

CONSTANT Verbose

Traces == JsonDeserialize(IOEnv.TRACE_FILE)

VARIABLES tid, l
tvars == <<vars, tid, l>>
Ev == Traces[tid].ev

Cls(c) == IF c = Absent THEN "absent" ELSE IF c = L THEN "complete" ELSE "partial"

Holds(e, stage) == e.w \in Workers /\ pc[e.w].k = e.k /\ pc[e.w].at = stage

Visible(e) ==
    \/ e.e = "name" /\ e.w \in Workers /\ e.k \in Keys /\ Take(e.w, e.k)
    \/ e.e = "load_begin" /\ Holds(e, "hit") /\ UNCHANGED vars
    \/ e.e = "load_end" /\ Holds(e, "hit") /\ (IF e.ok THEN LoadOk(e.w) ELSE LoadBad(e.w))
    \/ e.e = "compute" /\ Holds(e, "miss") /\ Compute(e.w) /\ ~verify
    \/ e.e = "save_begin" /\ Holds(e, "computed") /\ UNCHANGED vars
    \/ e.e = "save_end" /\ Holds(e, "saved") /\ UNCHANGED vars
    \/ e.e = "crash" /\ Crash
    \/ e.e = "dir" /\ (\A k \in Keys : Cls(fin[k]) = e.files[k]) /\ UNCHANGED vars
    \/ e.e = "end" /\ e.ok /\ e.same /\ FinishRun
    \/ e.e = "newrun" /\ NextRun
    \/ e.e = "mutate" /\ Mutate
    \/ e.e = "clear" /\ ClearCache
    \/ e.e = "drop" /\ DropEntries({j \in Keys : (e.k \div (2 ^ (j - 1))) % 2 = 1})   \* k = bit mask of the dropped keys
    \/ e.e = "fin" /\ EndAll

TInit == Init /\ tid \in 1..Len(Traces) /\ l = 1

TNext ==
    \/ l <= Len(Ev) /\ Visible(Ev[l]) /\ l' = l + 1 /\ UNCHANGED tid
    \/ l <= Len(Ev) /\ (\E w \in Workers : Tau(w)) /\ UNCHANGED <<tid, l>>
    \/ l > Len(Ev) /\ UNCHANGED tvars

Accept == (l > Len(Ev)) => PrintT("@J@" \o ToJson([id |-> Traces[tid].id, acc |-> TRUE, l |-> l]) \o "@E@")
Progress2 == Verbose => PrintT("@J@" \o ToJson([id |-> Traces[tid].id, acc |-> FALSE, l |-> l]) \o "@E@")
=============================================================================
