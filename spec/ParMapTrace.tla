---------------------------- MODULE ParMapTrace ----------------------------
(***************************************************************************)
(* C09, code -> spec: batched validation of recorded scans against the     *)
(* actions of ParMap (property instance: SharedInSeq = FALSE, untimed, any *)
(* take order).                                                            *)
(*                                                                         *)
(* A trace carries the configuration of the scan and, in time order, what  *)
(* the worker wrapper logged -- "start"(row i, worker w), "end"(row i) --  *)
(* then what the caller saw: "collect"(order in which the rows came back), *)
(* "eval"(row i read: NaN placeholder, or the plain parameters k and the   *)
(* effective inflow recovered from the reported fluxes), "fin".            *)
(* Applying the row and running have no log entry: silent steps.           *)
(* Rejected: a row started twice or never, two rows at once on one worker, *)
(* more workers than the pool has, rows returned out of input order, a     *)
(* placeholder at the wrong position, fluxes that are not those of a fresh *)
(* copy with exactly that row applied.                                     *)
(***************************************************************************)
EXTENDS ParMap, IOUtils

CONSTANT Verbose

Traces == JsonDeserialize(IOEnv.TRACE_FILE)

VARIABLES tid, l
tvars == <<vars, tid, l>>
Ev == Traces[tid].ev
ToSet(s) == {s[j] : j \in DOMAIN s}

TInit ==
    /\ tid \in 1..Len(Traces) /\ l = 1
    /\ LET c == Traces[tid].cfg
       IN cfg = [kind |-> c.kind, n |-> c.n, w |-> c.w, mode |-> c.mode, variant |-> c.variant,
                 cols |-> ToSet(c.cols), fail |-> c.fail, failmode |-> c.failmode, y0 |-> c.y0, names |-> c.names, labels |-> c.labels]
    /\ phase = "run"
    /\ dur = <<>> /\ obj = <<>> /\ task = <<>> /\ out = <<>> /\ eval = <<>>
    /\ clock = 0 /\ forder = <<>> /\ ftick = <<>> /\ eorder = <<>>

Visible(e) ==
    \/ e.e = "start" /\ e.i \in 1..cfg.n /\ e.w \in 1..cfg.w /\ Take(e.w, e.i)
    \/ e.e = "end" /\ e.i \in 1..cfg.n /\ Finish(e.i)
    \/ e.e = "collect" /\ Collect /\ e.order = [i \in 1..cfg.n |-> i]
    \/ e.e = "eval" /\ e.i \in 1..cfg.n /\ Evaluate(e.i)
                    /\ IF e.t = "nan" THEN eval'[e.i].t = "nan"
                       ELSE eval'[e.i].t = "val" /\ eval'[e.i].fl = [k |-> e.k, kineff |-> e.kineff]
    \/ e.e = "fin" /\ Finished

Silent == Start \/ \E i \in 1..cfg.n : ApplyRow(i) \/ Run(i)

TNext ==
    \/ l <= Len(Ev) /\ Visible(Ev[l]) /\ l' = l + 1 /\ UNCHANGED tid
    \/ l <= Len(Ev) /\ Silent /\ UNCHANGED <<tid, l>>
    \/ l > Len(Ev) /\ UNCHANGED tvars

Accept == (l > Len(Ev)) => PrintT("@J@" \o ToJson([id |-> Traces[tid].id, acc |-> TRUE, l |-> l]) \o "@E@")
Progress2 == Verbose => PrintT("@J@" \o ToJson([id |-> Traces[tid].id, acc |-> FALSE, l |-> l]) \o "@E@")
=============================================================================
