\* C19: in-process histories without a crash: Run, Rerun, [Mutate, Rerun,] ClearCache + changed function, Run, Rerun ...; a hit returns what is on disk; emits the histories
CONSTANTS
    NKeys = 2
    W = 2
    L = 1
    Design = "temp"
    Policy = "trust"
    RenameAt = "closed"
    BypassOne = FALSE
    MkdirAtBuild = FALSE
    Recover = FALSE
    Forwards = TRUE
    MaxDrop = 1
    LossyNames = FALSE
    Memo = FALSE
    MaxClear = 1
    MaxExtra = 1
    MaxCrash = 0
    Fifo = TRUE
    EmitOn = TRUE
INIT Init
NEXT Next
INVARIANT TypeOK
INVARIANT NoRaise
INVARIANT RightResults
INVARIANT Injective
INVARIANT NoRecompute
INVARIANT AllStored
INVARIANT ComputesExactlyMissing
INVARIANT FinalWhole
INVARIANT OneOwner
INVARIANT Emit
INVARIANT EmitOps
CHECK_DEADLOCK TRUE
