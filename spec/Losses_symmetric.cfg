\* C20: the losses for which the argument order of _Settings.loss cannot matter
CONSTANTS
    LossNames = {"mean_squared", "rmse", "mae", "mean_squared_logarithmic", "cosine_similarity"}
    Orients = {"pd"}
    N = 2
    Grid = "full"
    EmitOn = FALSE
INIT Init
NEXT Next
INVARIANT Symmetric
CHECK_DEADLOCK FALSE
