\* implementation-shaped WRONG instance (pinned commit): requested end minus override shift compared with
\* the absolute time reached. TLC must report RefusalIff violated.
CONSTANTS
    Depth = 3
    EmitOn = FALSE
    Variant = "shiftcmp"
    MenuName = "variant"
INIT Init
NEXT Next
INVARIANT RefusalIff
CHECK_DEADLOCK FALSE
