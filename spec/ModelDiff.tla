---------------------------- MODULE ModelDiff ----------------------------
(***************************************************************************)
(* E02 (beyond the listed properties) -- comparing two models.             *)
(*                                                                         *)
(* A pair of models is ONE seed content plus TWO edit histories, in terms  *)
(* of ModelEdit's own effect operator:                                     *)
(*     c1 = Run(h1, seed)                                                  *)
(*     c2 = Run(h2, c1)      (mode "chain": m2 is an edited copy of m1)    *)
(*     c2 = Run(h2, seed)    (mode "fork" : two descendants of one model)  *)
(* On such a pair this module specifies, as pure operators over content,   *)
(*                                                                         *)
(*   Diff(c1, c2)      mxlpy.experimental.diff.model_diff: per kind        *)
(*                     (parameters, variables, derived, reactions,         *)
(*                     readouts, surrogates) the names of m1 that m2       *)
(*                     lacks (missing_X) and, for names of that kind in    *)
(*                     both, what differs (different_X): the two values    *)
(*                     (parameters, variables), the two argument lists     *)
(*                     (derived, readouts), the argument lists and / or    *)
(*                     the stoichiometries -- whichever differ, the other  *)
(*                     pair left empty -- (reactions, surrogates).         *)
(*                     The result type has no field for functions of       *)
(*                     derived quantities / rates, for surrogate outputs   *)
(*                     or for data sets: Diff is silent about them.        *)
(*   SoftEq(c1, c2)    diff.soft_eq, "equal, ignoring the functions":      *)
(*                     the same names in every container and equal         *)
(*                     content once every function is forgotten.           *)
(*   NRC(c1, c2)       report.markdown: per section (variables,            *)
(*                     parameters, derived, reactions) the names listed    *)
(*                     as new (green), removed (red), changed (orange);    *)
(*                     the component-count table; the names listed under   *)
(*                     "numerical differences" (relative change >= 1/100   *)
(*                     of the values at t = 0 resp. of the derivatives).   *)
(*   SSTable / TCDesc  compare.steady_states / compare.time_courses on     *)
(*                     diagonal-affine contents (every variable's          *)
(*                     derivative is alpha + beta * itself): rows and      *)
(*                     cells m1, m2, diff = m2 - m1, rel_diff = diff / m1  *)
(*                     as exact rationals; time courses as closed-form     *)
(*                     descriptors (y0, alpha, beta per variable; p + q.y  *)
(*                     per dependent name) whose exponentials the harness  *)
(*                     evaluates.                                          *)
(*                                                                         *)
(* TLC checks the laws at the end of the module over every pair reachable  *)
(* with |h1| <= L1, |h2| <= L2 over the menu DOps (every component kind),  *)
(* emits (seed, h1, h2, predictions) for the replayer (spec -> code) and   *)
(* -- ModelDiffOracle.tla -- judges answers recorded from the real library *)
(* with the same operators (code -> spec).  Variant # "doc" selects an     *)
(* implementation-shaped WRONG diff that TLC must refute.                  *)
(***************************************************************************)
EXTENDS ModelEdit, FiniteSetsExt

Q == INSTANCE Rat

CONSTANTS
    Variant,    \* "doc" | "symmetric" (missing_X = symmetric difference) | "nosur" (surrogate differences dropped)
                \* | "softoneway" (soft_eq walks the first model's containers only)
    L1, L2,     \* maximal lengths of the two histories
    Modes,      \* subset of {"chain", "fork"}
    Exact,      \* TRUE: histories of exactly L1 / L2 edits (generation); FALSE: every length up to the bound
    Heavy       \* subset of {"report", "compare"}: also evaluate those laws (they need whole-model evaluation)

VARIABLES c1, h1, h2, mode, ph, n1, n2
dvars == <<c, hist, seed, fin, c1, h1, h2, mode, ph, n1, n2>>

RECURSIVE RunFrom(_, _, _)
RunFrom(ops, j, cc) == IF j > Len(ops) THEN cc ELSE RunFrom(ops, j + 1, Eff(ops[j], cc).c)
Run(ops, cc) == RunFrom(ops, 1, cc)

Kinds == {"parameters", "variables", "derived", "reactions", "readouts", "surrogates"}

NamesOf(cc) ==
    [parameters |-> DOMAIN cc.pars, variables |-> M!VarSet(cc), derived |-> DOMAIN cc.der,
     reactions |-> DOMAIN cc.rxn, readouts |-> DOMAIN cc.ro, surrogates |-> DOMAIN cc.sur]

(***************************************************************************)
(* model_diff                                                              *)
(***************************************************************************)
Both(f, g) == DOMAIN f \cap DOMAIN g

ValDiff(f, g) ==
    [n \in {m \in Both(f, g) : f[m] # g[m]} |-> <<f[n], g[n]>>]

ArgsDiff(f, g) ==
    [n \in {m \in Both(f, g) : f[m].args # g[m].args} |-> [args1 |-> f[n].args, args2 |-> g[n].args]]

\* reactions and surrogates: arguments and / or stoichiometries; the pair that does not differ stays empty
RxnDiff(f, g) ==
    [n \in {m \in Both(f, g) : f[m].args # g[m].args \/ f[m].st # g[m].st} |->
        LET da == f[n].args # g[n].args
            ds == f[n].st # g[n].st
        IN [args1 |-> IF da THEN f[n].args ELSE <<>>, args2 |-> IF da THEN g[n].args ELSE <<>>,
            st1 |-> IF ds THEN f[n].st ELSE Empty, st2 |-> IF ds THEN g[n].st ELSE Empty]]

Miss(S, T) == IF Variant = "symmetric" THEN (S \ T) \cup (T \ S) ELSE S \ T

Diff(a, b) ==
    [missing_parameters   |-> Miss(DOMAIN a.pars, DOMAIN b.pars),
     missing_variables    |-> Miss(M!VarSet(a), M!VarSet(b)),
     missing_derived      |-> Miss(DOMAIN a.der, DOMAIN b.der),
     missing_reactions    |-> Miss(DOMAIN a.rxn, DOMAIN b.rxn),
     missing_readouts     |-> Miss(DOMAIN a.ro, DOMAIN b.ro),
     missing_surrogates   |-> Miss(DOMAIN a.sur, DOMAIN b.sur),
     different_parameters |-> ValDiff(a.pars, b.pars),
     different_variables  |-> ValDiff(a.init, b.init),
     different_derived    |-> ArgsDiff(a.der, b.der),
     different_readouts   |-> ArgsDiff(a.ro, b.ro),
     different_reactions  |-> RxnDiff(a.rxn, b.rxn),
     different_surrogates |-> IF Variant = "nosur" THEN Empty ELSE RxnDiff(a.sur, b.sur)]

MissingOfKind(d, k) ==
    CASE k = "parameters" -> d.missing_parameters [] k = "variables" -> d.missing_variables
      [] k = "derived" -> d.missing_derived [] k = "reactions" -> d.missing_reactions
      [] k = "readouts" -> d.missing_readouts [] k = "surrogates" -> d.missing_surrogates
DifferentOfKind(d, k) ==
    CASE k = "parameters" -> d.different_parameters [] k = "variables" -> d.different_variables
      [] k = "derived" -> d.different_derived [] k = "reactions" -> d.different_reactions
      [] k = "readouts" -> d.different_readouts [] k = "surrogates" -> d.different_surrogates

NoMissing(d)   == \A k \in Kinds : MissingOfKind(d, k) = {}
NoDifferent(d) == \A k \in Kinds : DOMAIN DifferentOfKind(d, k) = {}
EmptyDiff(d)   == NoMissing(d) /\ NoDifferent(d)

\* what Diff looks at
View(cc) ==
    [pars |-> cc.pars, init |-> cc.init,
     der |-> [n \in DOMAIN cc.der |-> cc.der[n].args],
     ro  |-> [n \in DOMAIN cc.ro |-> cc.ro[n].args],
     rxn |-> [n \in DOMAIN cc.rxn |-> [args |-> cc.rxn[n].args, st |-> cc.rxn[n].st]],
     sur |-> [n \in DOMAIN cc.sur |-> [args |-> cc.sur[n].args, st |-> cc.sur[n].st]]]

(***************************************************************************)
(* soft_eq: equal once the functions are forgotten                         *)
(***************************************************************************)
SoftVal(v)   == IF v.k = "num" THEN v ELSE [k |-> "ia", args |-> v.args]
SoftCoef(co) == IF co.k = "num" THEN co ELSE [k |-> "calc", args |-> co.args]
SoftSt(st)   == [v \in DOMAIN st |-> SoftCoef(st[v])]

SoftView(cc) ==
    [pars |-> [n \in DOMAIN cc.pars |-> SoftVal(cc.pars[n])],
     init |-> [n \in DOMAIN cc.init |-> SoftVal(cc.init[n])],
     der  |-> [n \in DOMAIN cc.der |-> cc.der[n].args],
     ro   |-> [n \in DOMAIN cc.ro |-> cc.ro[n].args],
     rxn  |-> [n \in DOMAIN cc.rxn |-> [args |-> cc.rxn[n].args, st |-> SoftSt(cc.rxn[n].st)]],
     sur  |-> [n \in DOMAIN cc.sur |->
                 [args |-> cc.sur[n].args, outs |-> cc.sur[n].outs,
                  st |-> [o \in DOMAIN cc.sur[n].st |-> SoftSt(cc.sur[n].st[o])]]],
     data |-> cc.data]

\* implementation-shaped wrong instance: only the first model's derived / readouts / reactions / surrogates are walked
SoftOneWay(a, b) ==
    LET x == SoftView(a)  y == SoftView(b) IN
    /\ x.pars = y.pars /\ x.init = y.init
    /\ \A n \in DOMAIN x.der : n \in DOMAIN y.der /\ x.der[n] = y.der[n]
    /\ \A n \in DOMAIN x.ro : n \in DOMAIN y.ro /\ x.ro[n] = y.ro[n]
    /\ \A n \in DOMAIN x.rxn : n \in DOMAIN y.rxn /\ x.rxn[n] = y.rxn[n]
    /\ \A n \in DOMAIN x.sur : n \in DOMAIN y.sur /\ x.sur[n].args = y.sur[n].args /\ x.sur[n].st = y.sur[n].st

\* the reading the library implements (known findings, see SoftLibGap): assignment-defined values and surrogate
\* coefficients are compared WITH their functions; data sets and surrogate outputs are not looked at
SoftEqLib(a, b) ==
    LET x == SoftView(a)  y == SoftView(b) IN
    /\ a.pars = b.pars /\ a.init = b.init
    /\ x.der = y.der /\ x.ro = y.ro /\ x.rxn = y.rxn
    /\ DOMAIN a.sur = DOMAIN b.sur
    /\ \A n \in DOMAIN a.sur : a.sur[n].args = b.sur[n].args /\ a.sur[n].st = b.sur[n].st

SoftEq(a, b) == IF Variant = "softoneway" THEN SoftOneWay(a, b) ELSE SoftView(a) = SoftView(b)

\* MxlModel's ArgsAt / Rhs with the frozen part (parameters, derived parameters: one whole-model evaluation) computed
\* once and handed in -- TLC does not memoise operator applications; ArgsAtAgrees ties them to the originals
\* (TLC keeps [x \in S |-> e] unevaluated and re-evaluates e on every application; f @@ <<>> makes it a table)
Force(f) == f @@ <<>>
FrozenOf(cc) == LET e == Force(M!InitEnv(cc)) IN Force([n \in DOMAIN cc.pars \cup M!Static(cc) |-> e[n]])
ArgsAtF(cc, fr, y, t) ==
    M!Saturate(cc, M!Comps(cc) \ (M!IA(cc) \cup (DOMAIN fr \ DOMAIN cc.pars)),
               [n \in DOMAIN fr \cup M!VarSet(cc) \cup DOMAIN cc.data \cup {"time"} |->
                   IF n = "time" THEN t
                   ELSE IF n \in M!VarSet(cc) THEN y[n]
                   ELSE IF n \in DOMAIN cc.data THEN cc.data[n]
                   ELSE fr[n]])
RhsF(cc, a) == [v \in M!VarSet(cc) |-> M!SumFluxes(cc, a, v)]

\* the names get_args reports, and ModelEdit's Evaluable, through the cached forms (EvaluableAgrees ties them)
ReportedF(cc) ==
    LET e == Force(M!InitEnv(cc))
        fr == Force([n \in DOMAIN cc.pars \cup M!Static(cc) |-> e[n]])
        iv == Force([v \in M!VarSet(cc) |-> e[v]])
    IN DOMAIN ArgsAtF(cc, fr, iv, 0) \ DOMAIN cc.data
EvaluableF(cc) ==
    /\ M!WellFormed(cc)
    /\ DataOK(cc)
    /\ CoefArgs(cc) \cap DOMAIN cc.data = {}
    /\ StoichTargets(cc) \subseteq M!VarSet(cc)
    /\ \A s \in DOMAIN cc.sur : DOMAIN cc.sur[s].st \subseteq M!SeqRange(cc.sur[s].outs)
    /\ CoefArgs(cc) \subseteq ReportedF(cc)

(***************************************************************************)
(* report.markdown                                                         *)
(***************************************************************************)
Iabs(x) == IF x < 0 THEN 0 - x ELSE x

NRCof(S1, S2, changed) == [new |-> S2 \ S1, removed |-> S1 \ S2, changed |-> changed]

\* names whose value moved by at least one percent; a value leaving zero counts, a pair sitting exactly on the
\* threshold is reported separately (fragile: the library decides it in floating point)
Moved(f, g) ==
    [listed  |-> {n \in Both(f, g) : IF f[n] = 0 THEN g[n] # 0 ELSE 100 * Iabs(f[n] - g[n]) > Iabs(f[n])},
     fragile |-> {n \in Both(f, g) : f[n] # 0 /\ 100 * Iabs(f[n] - g[n]) = Iabs(f[n])}]

ArgTableOf(cc, env) == [n \in ReportedF(cc) |-> env[n]]
RhsTableOf(cc, iv) ==
    LET r == M!Rhs(cc, iv, 0)
    IN [v \in M!VarSet(cc) |-> r[CHOOSE j \in DOMAIN cc.vars : cc.vars[j] = v]]

Stats(cc) ==
    LET st == M!Static(cc) IN
    [variables |-> Len(cc.vars), parameters |-> Cardinality(DOMAIN cc.pars),
     derived_parameters |-> Cardinality(st),
     derived_variables |-> Cardinality(DOMAIN cc.der \ st),
     reactions |-> Cardinality(DOMAIN cc.rxn), surrogates |-> Cardinality(DOMAIN cc.sur)]

ReportOK(a, b) == EvaluableF(a) /\ EvaluableF(b)

\* the part of the report that needs no evaluation (what _new_removed_changed answers on the raw containers)
NRCStruct(a, b) ==
    [derived   |-> NRCof(DOMAIN a.der, DOMAIN b.der, {d \in Both(a.der, b.der) : a.der[d] # b.der[d]}),
     reactions |-> NRCof(DOMAIN a.rxn, DOMAIN b.rxn, {r \in Both(a.rxn, b.rxn) : a.rxn[r] # b.rxn[r]})]

\* (TLC evaluates a LET definition once per use site: the whole-model environments are computed here and passed on)
NRC(a, b) ==
    LET ea == Force(M!InitEnv(a))
        eb == Force(M!InitEnv(b))
        iva == Force([v \in M!VarSet(a) |-> ea[v]])
        ivb == Force([v \in M!VarSet(b) |-> eb[v]])
    IN
    [variables  |-> NRCof(M!VarSet(a), M!VarSet(b), {v \in M!VarSet(a) \cap M!VarSet(b) : ea[v] # eb[v]}),
     parameters |-> NRCof(DOMAIN a.pars, DOMAIN b.pars, {p \in Both(a.pars, b.pars) : ea[p] # eb[p]}),
     derived    |-> NRCof(DOMAIN a.der, DOMAIN b.der, {d \in Both(a.der, b.der) : a.der[d] # b.der[d]}),
     reactions  |-> NRCof(DOMAIN a.rxn, DOMAIN b.rxn, {r \in Both(a.rxn, b.rxn) : a.rxn[r] # b.rxn[r]}),
     \* the reading the library implements (known finding): assignment-defined parameters are invisible
     parameters_plain |-> NRCof(M!PlainPars(a), M!PlainPars(b),
                                {p \in M!PlainPars(a) \cap M!PlainPars(b) : ea[p] # eb[p]}),
     nplain1 |-> Cardinality(M!PlainPars(a)), nplain2 |-> Cardinality(M!PlainPars(b)),
     stats1 |-> Stats(a), stats2 |-> Stats(b),
     dependent |-> Moved(ArgTableOf(a, ea), ArgTableOf(b, eb)),
     rhs |-> Moved(RhsTableOf(a, iva), RhsTableOf(b, ivb))]

(***************************************************************************)
(* compare.steady_states / compare.time_courses on diagonal-affine content *)
(***************************************************************************)
ZeroY(cc) == [w \in M!VarSet(cc) |-> 0]
UnitY(cc, v) == [w \in M!VarSet(cc) |-> IF w = v THEN 1 ELSE 0]

\* readouts are outside the dependency graph: their arguments must be reported names
RoOK(cc) == LET rep == ReportedF(cc) IN \A r \in DOMAIN cc.ro : M!SeqRange(cc.ro[r].args) \subseteq rep

\* every reported name and every readout, given the table a of all values
FullOf(cc, a) ==
    LET ro == M!Readouts(cc, a)
    IN [n \in ((DOMAIN a \ DOMAIN cc.data) \ {"time"}) \cup DOMAIN ro |-> IF n \in DOMAIN ro THEN ro[n] ELSE a[n]]

\* the affine form read off at the origin and the unit points:
\*   value of name n at y  =  p[n] + SUM_v s[v][n] * y[v]      derivative of v at y = al[v] + SUM_w b[w][v] * y[w]
Lin(cc) ==
    LET V == M!VarSet(cc)
        fr == FrozenOf(cc)
        a0 == Force(ArgsAtF(cc, fr, ZeroY(cc), 0))
        a1 == Force([v \in V |-> Force(ArgsAtF(cc, fr, UnitY(cc, v), 0))])
        p == Force(FullOf(cc, a0))
        f == Force([v \in V |-> Force(FullOf(cc, a1[v]))])
        r0 == Force(RhsF(cc, a0))
        r == Force([v \in V |-> Force(RhsF(cc, a1[v]))])
    IN [fr |-> fr, p |-> p,
        s |-> Force([v \in V |-> Force([n \in DOMAIN p |-> f[v][n] - p[n]])]),
        al |-> r0,
        b |-> Force([w \in V |-> Force([v \in V |-> r[w][v] - r0[v]])])]

\* verified, not assumed: on the grid {0,1,2}^variables x {0,1} every derivative and every reported value is that
\* affine function, and no derivative depends on another variable
AffineDiag(cc, ln) ==
    LET V == M!VarSet(cc) IN
    /\ \A v, w \in V : v # w => ln.b[w][v] = 0
    /\ \A y \in [V -> {0, 1, 2}], t \in {0, 1} :
          LET a == Force(ArgsAtF(cc, ln.fr, y, t))
              r == Force(RhsF(cc, a))
              f == Force(FullOf(cc, a))
          IN /\ \A v \in V : r[v] = ln.al[v] + ln.b[v][v] * y[v]
             /\ \A n \in DOMAIN ln.p :
                   f[n] = FoldSet(LAMBDA v, acc : acc + ln.s[v][n] * y[v], ln.p[n], V)

\* the cached forms are MxlModel's own (checked on the contents met while the first history is built)
ArgsAtAgrees ==
    (ph = "h1" /\ "compare" \in Heavy) =>
      /\ EvaluableF(c) = Evaluable(c)
      /\ EvaluableF(c) =>
        LET fr == FrozenOf(c)
            y == [v \in M!VarSet(c) |-> IF v = "a" THEN 2 ELSE 1]
            a == ArgsAtF(c, fr, y, 1)
        IN /\ a = M!ArgsAt(c, y, 1)
           /\ ReportedF(c) = M!Reported(c)
           /\ \A j \in DOMAIN c.vars : RhsF(c, a)[c.vars[j]] = M!Rhs(c, y, 1)[j]

LinOK(cc) == EvaluableF(cc) /\ RoOK(cc) /\ Len(cc.vars) \in 1..2 /\ AffineDiag(cc, Lin(cc))

\* a steady state is approached from the declared initial state: every variable decays (beta < 0) or is constant
Settles(cc, ln) == \A v \in M!VarSet(cc) : ln.b[v][v] < 0 \/ (ln.b[v][v] = 0 /\ ln.al[v] = 0)
SSOK(cc) == LinOK(cc) /\ Settles(cc, Lin(cc))

SSVarOf(cc, ln, iv, v) == IF ln.b[v][v] = 0 THEN Q!RFromInt(iv[v]) ELSE Q!R(0 - ln.al[v], ln.b[v][v])

\* the steady state and the value of every reported name / readout there
SSAll(cc) ==
    LET ln == Lin(cc)
        iv == Force(M!InitialValues(cc))
        ys == Force([v \in M!VarSet(cc) |-> SSVarOf(cc, ln, iv, v)])
    IN Force([n \in DOMAIN ln.p |->
          FoldSet(LAMBDA v, acc : Q!RAdd(acc, Q!RMul(Q!RFromInt(ln.s[v][n]), ys[v])), Q!RFromInt(ln.p[n]), M!VarSet(cc))])

VarRows(cc) ==
    M!VarSet(cc) \cup (DOMAIN cc.der \ M!Static(cc)) \cup DOMAIN cc.ro \cup (SurOutNames(cc) \ M!SurFluxes(cc))
FluxRows(cc) == M!FluxNames(cc)
RowsOf(cc, kind) ==
    IF kind = "variables" THEN VarRows(cc) ELSE IF kind = "fluxes" THEN FluxRows(cc) ELSE VarRows(cc) \cup FluxRows(cc)

Absent == [n |-> 2, d |-> 0]      \* the model has no such row (NaN in the table)

\* sa, sb: SSAll of the two contents
SSTableOf(a, b, sa, sb, kind) ==
    LET ra == RowsOf(a, kind)
        rb == RowsOf(b, kind)
    IN [n \in ra \cup rb |->
        LET x == IF n \in ra THEN sa[n] ELSE Absent
            y == IF n \in rb THEN sb[n] ELSE Absent
            both == n \in ra /\ n \in rb
        IN [m1 |-> x, m2 |-> y,
            diff |-> IF both THEN Q!RSub(y, x) ELSE Absent,
            rel_diff |-> IF both THEN Q!RDiv(Q!RSub(y, x), x) ELSE Absent]]

SSTable(a, b, kind) == SSTableOf(a, b, SSAll(a), SSAll(b), kind)

\* time courses: closed-form descriptor
TCDesc(cc) ==
    LET ln == Lin(cc)
        iv == Force(M!InitialValues(cc))
    IN
    [vars |-> [v \in M!VarSet(cc) |-> [y0 |-> iv[v], alpha |-> ln.al[v], beta |-> ln.b[v][v]]],
     names |-> [n \in (VarRows(cc) \cup FluxRows(cc)) \ M!VarSet(cc) |->
                  [p |-> ln.p[n], q |-> [v \in M!VarSet(cc) |-> ln.s[v][n]]]],
     varrows |-> VarRows(cc), fluxrows |-> FluxRows(cc)]

Compare(a, b) ==
    LET la == LinOK(a)
        lb == LinOK(b)
    IN
    [tc |-> IF la /\ lb
            THEN [k |-> "ok", m1 |-> TCDesc(a), m2 |-> TCDesc(b),
                  \* the relative-difference tables have m1's columns and exist when m2 has them all
                  relvars |-> VarRows(a) \subseteq VarRows(b), relfluxes |-> FluxRows(a) \subseteq FluxRows(b)]
            ELSE [k |-> "none"],
     ss |-> IF la /\ lb /\ Settles(a, Lin(a)) /\ Settles(b, Lin(b))
            THEN LET sa == SSAll(a)
                     sb == SSAll(b)
                 IN [k |-> "ok", variables |-> SSTableOf(a, b, sa, sb, "variables"),
                     fluxes |-> SSTableOf(a, b, sa, sb, "fluxes"), all |-> SSTableOf(a, b, sa, sb, "all")]
            ELSE [k |-> "none"]]

(***************************************************************************)
(* Seeds and the edit menu (every component kind)                          *)
(***************************************************************************)
Neg1 == Num(0 - 1)
CalcC(f, a) == [k |-> "calc", fn |-> f, args |-> a]

DSeed(s) ==
    CASE s = "full" ->      \* every kind at once: plain and assignment-defined values, static and dynamic derived,
                            \* a numeric and a computed stoichiometry, a readout, a surrogate with a flux, a data set
           [vars |-> <<"a", "x">>,
            init |-> ("a" :> Num(2)) @@ ("x" :> IAv("inc", <<"b">>)),
            pars |-> ("b" :> Num(7)) @@ ("p" :> IAv("inc", <<"b">>)),
            der  |-> ("d" :> Call("inc", <<"b">>)) @@ ("e" :> Call("mul", <<"a", "b">>)),
            rxn  |-> ("r" :> [fn |-> "mul", args |-> <<"a", "b">>, st |-> ("a" :> Neg1) @@ ("x" :> Num(1))])
                     @@ ("q" :> [fn |-> "inc", args |-> <<"a">>, st |-> ("a" :> CalcC("id", <<"b">>))]),
            sur  |-> ("s" :> [fns |-> <<"inc", "dbl">>, args |-> <<"a">>, outs |-> <<"o1", "o2">>,
                              st |-> ("o1" :> ("a" :> Num(1)))]),
            ro   |-> ("o" :> Call("inc", <<"a">>)),
            data |-> ("z" :> 13)]
      [] s = "lin1" ->      \* a' = k - b a
           [EmptyContent EXCEPT
              !.vars = <<"a">>, !.init = ("a" :> Num(1)),
              !.pars = ("b" :> Num(3)) @@ ("k" :> Num(6)),
              !.der  = ("d" :> Call("dbl", <<"a">>)),
              !.rxn  = ("vin" :> [fn |-> "id", args |-> <<"k">>, st |-> ("a" :> Num(1))])
                       @@ ("vout" :> [fn |-> "mul", args |-> <<"a", "b">>, st |-> ("a" :> Neg1)]),
              !.ro   = ("o" :> Call("inc", <<"a">>))]
      [] s = "lin2" ->      \* a' = k - b a ; x' = 2 - g x (decoupled)
           [EmptyContent EXCEPT
              !.vars = <<"a", "x">>, !.init = ("a" :> Num(1)) @@ ("x" :> Num(4)),
              !.pars = ("b" :> Num(3)) @@ ("k" :> Num(6)) @@ ("g" :> Num(2)),
              !.der  = ("d" :> Call("dbl", <<"a">>)) @@ ("e" :> Call("inc", <<"b">>)),
              !.rxn  = ("vin" :> [fn |-> "id", args |-> <<"k">>, st |-> ("a" :> Num(1))])
                       @@ ("vout" :> [fn |-> "mul", args |-> <<"a", "b">>, st |-> ("a" :> Neg1)])
                       @@ ("win" :> [fn |-> "two", args |-> <<>>, st |-> ("x" :> Num(1))])
                       @@ ("wout" :> [fn |-> "mul", args |-> <<"x", "g">>, st |-> ("x" :> Neg1)])]
      [] OTHER -> SeedContent(s)

Fresh == "n1"
OtherFn(f) ==
    CASE f = "inc" -> "dbl" [] f = "dbl" -> "inc" [] f = "id" -> "neg" [] f = "neg" -> "id"
      [] f = "mul" -> "add" [] f = "add" -> "mul" [] f = "two" -> "one" [] f = "one" -> "two" [] OTHER -> f
Re1(args, x) == [j \in DOMAIN args |-> IF j = 1 THEN x ELSE args[j]]

DVals == {Num(3), Num(7), IAv("inc", <<"b">>), IAv("dbl", <<"b">>), IAv("inc", <<"a">>)}

DStMenu(cc, old) ==
    LET V == M!VarSet(cc) IN
    {Empty, old}
    \cup {(v :> Num(0 - 2)) : v \in V}
    \cup {(v :> CalcC("id", <<"b">>)) : v \in V}                    \* a named (parameter) coefficient
    \cup {[v \in DOMAIN old |-> IF old[v].k = "calc" THEN CalcC(OtherFn(old[v].fn), old[v].args) ELSE old[v]]}

DOps(cc) ==
    LET P == DOMAIN cc.pars   V == M!VarSet(cc)   D == DOMAIN cc.der   R == DOMAIN cc.rxn
        O == DOMAIN cc.ro     S == DOMAIN cc.sur  Z == DOMAIN cc.data
        pool == P \cup V
    IN
    \* parameters
    {[op |-> "add_parameter", n |-> Fresh, v |-> v] : v \in {Num(5), IAv("inc", <<"b">>)}}
    \cup {[op |-> "add_parameter", n |-> "a", v |-> Num(5)]}
    \cup {[op |-> "update_parameter", n |-> p, v |-> v] : p \in P, v \in DVals}
    \cup {o \in {[op |-> "scale_parameter", n |-> p, f |-> f] : p \in P, f \in {1, 2}} :
             IF cc.pars[o.n].k = "num" THEN TRUE ELSE o.f = 2 /\ EvaluableF(cc)}
    \cup {[op |-> "remove_parameter", n |-> p] : p \in P}
    \cup {[op |-> "make_parameter_dynamic", n |-> p, iv |-> None, st |-> st] :
             p \in P, st \in {Empty} \cup {(r :> 2) : r \in R}}
    \* variables
    \cup {[op |-> "add_variable", n |-> Fresh, v |-> v] : v \in {Num(5), IAv("inc", <<"b">>)}}
    \cup {[op |-> "update_variable", n |-> v, v |-> w] : v \in V, w \in DVals}
    \cup {[op |-> "remove_variable", n |-> v] : v \in V}
    \cup {[op |-> "make_variable_static", n |-> v, iv |-> iv] : v \in V, iv \in {None, Num(4)}}
    \* derived
    \cup {[op |-> "add_derived", n |-> Fresh, call |-> Call("inc", <<x>>)] : x \in {"a", "b"}}
    \cup {[op |-> "update_derived", n |-> d, call |-> Call(OtherFn(cc.der[d].fn), cc.der[d].args), mode |-> "fn"] : d \in D}
    \cup {[op |-> "update_derived", n |-> d, call |-> Call(cc.der[d].fn, Re1(cc.der[d].args, x)), mode |-> "args"] :
             d \in {e \in D : Len(cc.der[e].args) > 0}, x \in pool}
    \cup {[op |-> "update_derived", n |-> d, call |-> Call("two", <<>>), mode |-> "both"] : d \in D}
    \cup {[op |-> "remove_derived", n |-> d] : d \in D}
    \* reactions
    \cup {[op |-> "add_reaction", n |-> Fresh, call |-> Call("inc", <<"a">>), st |-> st] :
             st \in {Empty} \cup {(v :> Neg1) : v \in V}}
    \cup {[op |-> "update_reaction", n |-> r, call |-> NoCall, mode |-> "both", keepst |-> TRUE, st |-> Empty] : r \in R}
    \cup {[op |-> "update_reaction", n |-> r, call |-> Call(OtherFn(cc.rxn[r].fn), cc.rxn[r].args), mode |-> "fn",
           keepst |-> TRUE, st |-> Empty] : r \in R}
    \cup {[op |-> "update_reaction", n |-> r, call |-> Call(cc.rxn[r].fn, Re1(cc.rxn[r].args, x)), mode |-> "args",
           keepst |-> TRUE, st |-> Empty] : r \in {e \in R : Len(cc.rxn[e].args) > 0}, x \in pool}
    \cup UNION {{[op |-> "update_reaction", n |-> r, call |-> NoCall, mode |-> "both", keepst |-> FALSE, st |-> st] :
                    st \in DStMenu(cc, cc.rxn[r].st)} : r \in R}
    \cup {[op |-> "remove_reaction", n |-> r] : r \in R}
    \* readouts
    \cup {[op |-> "add_readout", n |-> n, call |-> Call("inc", <<x>>)] : n \in {Fresh, "o"}, x \in {"a", "b"}}
    \cup {[op |-> "remove_readout", n |-> o] : o \in O}
    \* surrogates
    \cup {[op |-> "add_surrogate", n |-> Fresh,
           sur |-> [fns |-> <<"inc", "dbl">>, args |-> <<"a">>, outs |-> <<"u1", "u2">>, st |-> st]] :
             st \in {Empty} \cup {("u1" :> (v :> Num(1))) : v \in V}}
    \cup {[op |-> "update_surrogate", n |-> s, keepargs |-> FALSE, args |-> <<x>>,
           keepouts |-> TRUE, outs |-> <<"o1", "o2">>, keepst |-> TRUE, st |-> Empty] : s \in S, x \in pool}
    \cup UNION {{[op |-> "update_surrogate", n |-> s, keepargs |-> TRUE, args |-> <<"time">>,
                  keepouts |-> TRUE, outs |-> <<"o1", "o2">>, keepst |-> FALSE, st |-> st] :
                    st \in {Empty, cc.sur[s].st}
                           \cup {(cc.sur[s].outs[1] :> (v :> co)) :
                                   v \in V, co \in {Num(0 - 3), CalcC("neg", <<"time">>), CalcC("inc", <<"time">>)}}}
                : s \in S}
    \cup {[op |-> "update_surrogate", n |-> s, keepargs |-> TRUE, args |-> <<"time">>,
           keepouts |-> FALSE, outs |-> <<"p1", "p2">>, keepst |-> FALSE, st |-> Empty] : s \in S}
    \cup {[op |-> "remove_surrogate", n |-> s] : s \in S}
    \* data sets
    \cup {[op |-> "add_data", n |-> Fresh, d |-> 13]}
    \cup {[op |-> "update_data", n |-> z, d |-> d] : z \in Z, d \in {13, 17}}
    \cup {[op |-> "remove_data", n |-> z] : z \in Z}

(***************************************************************************)
(* Generator of pairs                                                      *)
(***************************************************************************)
DInit ==
    /\ seed \in Seeds /\ mode \in Modes
    /\ c = DSeed(seed) /\ c1 = DSeed(seed)
    /\ h1 = <<>> /\ h2 = <<>> /\ n1 = 0 /\ n2 = 0 /\ ph = "h1"
    /\ hist = <<>> /\ fin = FALSE

Edit1 ==
    /\ ph = "h1" /\ n1 < L1
    /\ \E op \in DOps(c) :
          /\ c' = Eff(op, c).c
          /\ h1' = IF EmitOn THEN Append(h1, op) ELSE h1
    /\ n1' = n1 + 1
    /\ UNCHANGED <<hist, seed, fin, c1, h2, mode, ph, n2>>

Switch ==
    /\ ph = "h1" /\ (Exact => n1 = L1)
    /\ ph' = "h2" /\ c1' = c
    /\ c' = IF mode = "chain" THEN c ELSE DSeed(seed)
    /\ UNCHANGED <<hist, seed, fin, h1, h2, mode, n1, n2>>

Edit2 ==
    /\ ph = "h2" /\ n2 < L2
    /\ \E op \in DOps(c) :
          /\ c' = Eff(op, c).c
          /\ h2' = IF EmitOn THEN Append(h2, op) ELSE h2
    /\ n2' = n2 + 1
    /\ UNCHANGED <<hist, seed, fin, c1, h1, mode, ph, n1>>

\* a separate last step when pairs are emitted (in -simulate mode invariants are evaluated on every generated
\* successor: exactly one pair per behaviour); without emission every state of the second phase is a finished pair
Close ==
    /\ EmitOn /\ ph = "h2" /\ (Exact => n2 = L2)
    /\ ph' = "done" /\ fin' = TRUE
    /\ UNCHANGED <<c, hist, seed, c1, h1, h2, mode, n1, n2>>

DNext == Edit1 \/ Switch \/ Edit2 \/ Close

IsDone == IF EmitOn THEN ph = "done" ELSE ph = "h2"

(***************************************************************************)
(* Laws (TLC): c1 and c (= c2) of every finished pair                      *)
(***************************************************************************)
\* a model does not differ from itself
SelfEmpty == IsDone => EmptyDiff(Diff(c1, c1)) /\ EmptyDiff(Diff(c, c)) /\ SoftEq(c1, c1) /\ SoftEq(c, c)

\* nothing reported in either direction  <=>  the two contents agree on everything Diff looks at
TwoWayEmptyIffAgree ==
    IsDone => ((EmptyDiff(Diff(c1, c)) /\ EmptyDiff(Diff(c, c1))) <=> View(c1) = View(c))

\* what is reported concerns the right names: missing = in the first and not in the second, different = in both;
\* the reverse diff carries the same differences with the two sides exchanged
OneSided ==
    IsDone =>
      LET d == Diff(c1, c)  e == Diff(c, c1) IN
      \A k \in Kinds :
         /\ MissingOfKind(d, k) \subseteq NamesOf(c1)[k] /\ MissingOfKind(d, k) \cap NamesOf(c)[k] = {}
         /\ MissingOfKind(d, k) = NamesOf(c1)[k] \ NamesOf(c)[k]
         /\ DOMAIN DifferentOfKind(d, k) \subseteq NamesOf(c1)[k] \cap NamesOf(c)[k]
         /\ DOMAIN DifferentOfKind(d, k) = DOMAIN DifferentOfKind(e, k)

Swapped ==
    IsDone =>
      LET d == Diff(c1, c)  e == Diff(c, c1) IN
      /\ \A n \in DOMAIN d.different_parameters : e.different_parameters[n] = <<d.different_parameters[n][2], d.different_parameters[n][1]>>
      /\ \A n \in DOMAIN d.different_variables : e.different_variables[n] = <<d.different_variables[n][2], d.different_variables[n][1]>>
      /\ \A n \in DOMAIN d.different_derived : e.different_derived[n] = [args1 |-> d.different_derived[n].args2, args2 |-> d.different_derived[n].args1]
      /\ \A n \in DOMAIN d.different_reactions :
            LET x == d.different_reactions[n] IN
            e.different_reactions[n] = [args1 |-> x.args2, args2 |-> x.args1, st1 |-> x.st2, st2 |-> x.st1]

\* soft equality: symmetric, implied by equality, and it leaves nothing for Diff to name except value / coefficient
\* functions
SoftEqLaws ==
    IsDone =>
      LET d == Diff(c1, c)  e == Diff(c, c1) IN
      /\ SoftEq(c1, c) = SoftEq(c, c1)
      /\ c1 = c => SoftEq(c1, c)
      /\ SoftEq(c1, c) =>
            /\ NoMissing(d) /\ NoMissing(e)
            /\ DOMAIN d.different_derived = {} /\ DOMAIN d.different_readouts = {}
            /\ \A n \in DOMAIN d.different_reactions : d.different_reactions[n].args1 = d.different_reactions[n].args2
            /\ \A n \in DOMAIN d.different_parameters :
                  d.different_parameters[n][1].k = "ia" /\ d.different_parameters[n][2].k = "ia"
      /\ (EmptyDiff(d) /\ EmptyDiff(e) /\ c1.data = c.data
          /\ \A s \in DOMAIN c1.sur : c1.sur[s].outs = c.sur[s].outs) => SoftEq(c1, c)

\* where the documented reading and the implemented one part: only through functions (implemented is stricter) or
\* through data sets / surrogate outputs (implemented is blind)
FnOnlyGap(a, b) ==
    \/ \E n \in Both(a.pars, b.pars) : a.pars[n] # b.pars[n] /\ SoftVal(a.pars[n]) = SoftVal(b.pars[n])
    \/ \E n \in Both(a.init, b.init) : a.init[n] # b.init[n] /\ SoftVal(a.init[n]) = SoftVal(b.init[n])
    \/ \E n \in Both(a.sur, b.sur) : a.sur[n].st # b.sur[n].st
SoftLibGap ==
    IsDone =>
      /\ SoftEqLib(c1, c) = SoftEqLib(c, c1)
      /\ (SoftEq(c1, c) /\ ~SoftEqLib(c1, c)) => FnOnlyGap(c1, c)
      /\ (~SoftEq(c1, c) /\ SoftEqLib(c1, c)) =>
            (c1.data # c.data \/ \E n \in Both(c1.sur, c.sur) : c1.sur[n].outs # c.sur[n].outs)

\* the keys of Diff(cc, cc') and Diff(cc', cc) one accepted singular edit produces: [miss, miss', diff] per kind
KeySets(d) ==
    [k \in Kinds |-> [m |-> MissingOfKind(d, k), d |-> DOMAIN DifferentOfKind(d, k)]]
NoKeys == [k \in Kinds |-> [m |-> {}, d |-> {}]]
WithM(ks, k, S) == [ks EXCEPT ![k].m = S]
WithD(ks, k, S) == [ks EXCEPT ![k].d = S]

\* fluxes whose stoichiometry mentions variable v: reactions / surrogates
RxnTouching(cc, v) == {r \in DOMAIN cc.rxn : v \in DOMAIN cc.rxn[r].st}
SurTouching(cc, v) == {s \in DOMAIN cc.sur : \E o \in DOMAIN cc.sur[s].st : v \in DOMAIN cc.sur[s].st[o]}

\* forward keys (what cc has and cc' lacks / has differently) and backward missing keys, by the kind of the edit
Forward(op, cc) ==
    LET o == op.op  n == op.n IN
    IF o \in {"add_parameter", "add_variable", "add_derived", "add_reaction", "add_readout", "add_surrogate",
              "add_data", "update_data", "remove_data"} THEN NoKeys
    ELSE IF o = "remove_parameter" THEN WithM(NoKeys, "parameters", {n})
    ELSE IF o = "remove_derived" THEN WithM(NoKeys, "derived", {n})
    ELSE IF o = "remove_reaction" THEN WithM(NoKeys, "reactions", {n})
    ELSE IF o = "remove_readout" THEN WithM(NoKeys, "readouts", {n})
    ELSE IF o = "remove_surrogate" THEN WithM(NoKeys, "surrogates", {n})
    ELSE IF o \in {"remove_variable", "make_variable_static"}
         THEN WithD(WithD(WithM(NoKeys, "variables", {n}), "reactions", RxnTouching(cc, n)), "surrogates", SurTouching(cc, n))
    ELSE IF o = "make_parameter_dynamic"
         THEN WithD(WithD(WithM(NoKeys, "parameters", {n}), "reactions", DOMAIN op.st \cap DOMAIN cc.rxn),
                    "surrogates", {s \in DOMAIN cc.sur : DOMAIN op.st \cap DOMAIN cc.sur[s].st # {}})
    ELSE IF o = "update_parameter" THEN WithD(NoKeys, "parameters", IF cc.pars[n] = op.v THEN {} ELSE {n})
    ELSE IF o = "scale_parameter"
         THEN WithD(NoKeys, "parameters", IF cc.pars[n].k = "num" /\ cc.pars[n].v * op.f = cc.pars[n].v THEN {} ELSE {n})
    ELSE IF o = "update_variable" THEN WithD(NoKeys, "variables", IF cc.init[n] = op.v THEN {} ELSE {n})
    ELSE IF o = "update_derived"
         THEN WithD(NoKeys, "derived", IF op.mode = "fn" \/ op.call.args = cc.der[n].args THEN {} ELSE {n})
    ELSE IF o = "update_reaction"
         THEN WithD(NoKeys, "reactions",
                    IF \/ (op.call.fn # "none" /\ op.mode # "fn" /\ op.call.args # cc.rxn[n].args)
                       \/ (~op.keepst /\ op.st # cc.rxn[n].st) THEN {n} ELSE {})
    ELSE \* update_surrogate
         WithD(NoKeys, "surrogates",
               IF \/ (~op.keepargs /\ op.args # cc.sur[n].args)
                  \/ (~op.keepst /\ op.st # cc.sur[n].st) THEN {n} ELSE {})

BackwardMissing(op) ==
    LET o == op.op  n == op.n IN
    IF o = "add_parameter" \/ o = "make_variable_static" THEN WithM(NoKeys, "parameters", {n})
    ELSE IF o = "add_variable" \/ o = "make_parameter_dynamic" THEN WithM(NoKeys, "variables", {n})
    ELSE IF o = "add_derived" THEN WithM(NoKeys, "derived", {n})
    ELSE IF o = "add_reaction" THEN WithM(NoKeys, "reactions", {n})
    ELSE IF o = "add_readout" THEN WithM(NoKeys, "readouts", {n})
    ELSE IF o = "add_surrogate" THEN WithM(NoKeys, "surrogates", {n})
    ELSE NoKeys

\* one edit yields exactly the entries its kind predicts; a rejected edit yields none; an update of a parameter
\* reports the old and the new value
OpLaw(op, cc) ==
    LET r == Eff(op, cc)
        d == Diff(cc, r.c)
        e == Diff(r.c, cc)
    IN IF ~r.ok THEN EmptyDiff(d) /\ EmptyDiff(e)
       ELSE /\ KeySets(d) = Forward(op, cc)
            /\ [k \in Kinds |-> KeySets(e)[k].m] = [k \in Kinds |-> BackwardMissing(op)[k].m]
            /\ [k \in Kinds |-> KeySets(e)[k].d] = [k \in Kinds |-> Forward(op, cc)[k].d]
            /\ (op.op = "update_parameter" /\ cc.pars[op.n] # op.v) =>
                  d.different_parameters[op.n] = <<cc.pars[op.n], op.v>>

\* checked on every content met while the first history is built
SingleEditLaw == ph = "h1" => \A op \in DOps(c) : OpLaw(op, c)

\* report versus diff: removed / new are the two directions' missing names; whatever Diff reports as different for
\* derived quantities and reactions the report lists as changed (the report also sees functions)
ReportLaws ==
    (IsDone /\ "report" \in Heavy /\ ReportOK(c1, c)) =>
      LET d == Diff(c1, c)  e == Diff(c, c1)  r == NRC(c1, c) IN
      /\ r.parameters.removed = d.missing_parameters /\ r.parameters.new = e.missing_parameters
      /\ r.variables.removed = d.missing_variables /\ r.variables.new = e.missing_variables
      /\ r.derived.removed = d.missing_derived /\ r.derived.new = e.missing_derived
      /\ r.reactions.removed = d.missing_reactions /\ r.reactions.new = e.missing_reactions
      /\ DOMAIN d.different_derived \subseteq r.derived.changed
      /\ DOMAIN d.different_reactions \subseteq r.reactions.changed
      /\ c1 = c => \A k \in {"variables", "parameters", "derived", "reactions"} :
                      r[k].new = {} /\ r[k].removed = {} /\ r[k].changed = {}
      /\ c1 = c => r.dependent.listed = {} /\ r.rhs.listed = {}

\* comparisons: a model compared with itself differs nowhere; the m1 column of (a, b) is the m2 column of (b, a);
\* m1 + rel_diff * m1 = m2; where the steady state is integral it is a zero of the right-hand side operator itself
CompareLaws ==
    (IsDone /\ "compare" \in Heavy /\ SSOK(c1) /\ SSOK(c)) =>
      LET sa == SSAll(c1)
          sb == SSAll(c)
          t == SSTableOf(c1, c, sa, sb, "all")
          u == SSTableOf(c, c1, sb, sa, "all")
          s == SSTableOf(c1, c1, sa, sa, "all")
      IN
      /\ DOMAIN t = DOMAIN u
      /\ DOMAIN t = RowsOf(c1, "variables") \cup RowsOf(c1, "fluxes") \cup RowsOf(c, "variables") \cup RowsOf(c, "fluxes")
      /\ \A n \in DOMAIN t : t[n].m1 = u[n].m2 /\ t[n].m2 = u[n].m1
      /\ \A n \in DOMAIN s : s[n].diff = Q!Zero /\ (s[n].m1 # Q!Zero => s[n].rel_diff = Q!Zero)
      /\ \A n \in DOMAIN t : (Q!IsRat(t[n].m1) /\ Q!IsRat(t[n].m2) /\ t[n].m1 # Q!Zero) =>
            Q!RAdd(t[n].m1, Q!RMul(t[n].rel_diff, t[n].m1)) = t[n].m2
      /\ (\A v \in M!VarSet(c) : Q!IsInt(sb[v])) =>
            LET y == [v \in M!VarSet(c) |-> sb[v].n] IN
            \A j \in DOMAIN c.vars : M!Rhs(c, y, 0)[j] = 0

(***************************************************************************)
(* Emission (spec -> code)                                                 *)
(***************************************************************************)
Prediction(a, b) ==
    [c1 |-> a, c2 |-> b,
     d12 |-> Diff(a, b), d21 |-> Diff(b, a),
     s12 |-> SoftEq(a, b), s21 |-> SoftEq(b, a), s12lib |-> SoftEqLib(a, b), s21lib |-> SoftEqLib(b, a),
     nrcs |-> NRCStruct(a, b),
     report |-> IF ReportOK(a, b) THEN [k |-> "ok", nrc |-> NRC(a, b)] ELSE [k |-> "none"],
     cmp |-> IF seed \in {"lin1", "lin2"} THEN Compare(a, b) ELSE [tc |-> [k |-> "none"], ss |-> [k |-> "none"]]]

DEmit ==
    (EmitOn /\ IsDone) =>
        PrintT("@J@" \o ToJson([seed |-> seed, mode |-> mode, start |-> DSeed(seed), h1 |-> h1, h2 |-> h2,
                                pred |-> Prediction(c1, c)]) \o "@E@")
=============================================================================
