--------------------------- MODULE LinearLabelMC ---------------------------
(***************************************************************************)
(* C16 -- case family over LinearLabel: steady-state mass-action networks  *)
(* x label counts x ALL maps (every reaction, max(S,P) entries) x          *)
(* isotopomer distributions consistent with the steady pools, built by     *)
(* actions.  On every finished case TLC checks                             *)
(*   ThSteady   the chosen pools and rate constants are a steady state     *)
(*   ThDist     the isotopomer distribution has the steady pools as totals *)
(*   ThLinIsIso the linear model (LinMode) at the enrichments of the       *)
(*              distribution, EXT = 1, has exactly the rate of change the  *)
(*              isotopomer model gives to every position's enrichment      *)
(*   ThUniform  uniform enrichment x with EXT = x is stationary            *)
(*   ThZero     no label and EXT = 0: nothing appears                      *)
(*   ThInvol    for involutive maps the pinned shape coincides with the    *)
(*              documented reading (explains the shape of the finding)     *)
(* and emits the case with the predicted right-hand sides.                 *)
(* LinMode = "doc" is the definition; LinMode = "pinned" (the substrate -> *)
(* product reading of the pinned implementation) must be REJECTED by TLC   *)
(* (ThLinIsIso) -- run with expect_violation.                              *)
(***************************************************************************)
EXTENDS LinearLabel, SequencesExt, Json

CONSTANTS
    Tpls, MaxNL, MaxL,
    Ords,             \* presentation orders offered (subset of {"std", "swap", "rev", "swaprev"}, see LabelExpand!Reorder)
    Focus,            \* TRUE: reactions without substrate or without product atoms (influx / efflux) take only the
                      \* identity, the reversal and the constant-0 map (their maps multiply the family otherwise)
    OnlyInvolutive,   \* TRUE: build only involutive maps (used to show that the pinned shape is right on them)
    DistAll,          \* TRUE: every combination of distributions (from Dists) per compound; FALSE: one rotating choice
    Dists,            \* the distribution patterns offered when DistAll (1: unlabelled, 2: fully labelled, 3 and 4:
                      \* weighted spreads that give the positions of a compound DIFFERENT enrichments)
    LinMode,          \* "doc" | "pinned"
    SessMemo,         \* FALSE: a second build on the same mapper follows the base model as it is then;
                      \* TRUE (wrong instance): it uses the reactions remembered from the first build
    EmitOn

VARIABLES tpl, ord, nl, maps, ci, ri, dk, stage,
          sc      \* the finished case with everything the specification computes for it (filled in once, by the last step)
vars == <<tpl, ord, nl, maps, ci, ri, dk, stage, sc>>

Empty == [n \in {} |-> 0]
Rx(name, subs, prods, args) ==
    [name |-> name, subs |-> subs, prods |-> prods, args |-> args, mapped |-> TRUE, map |-> <<>>]

\* pools (= base initial amounts) and rate constants chosen so that the network is at steady state;
\* pools are pairwise different so that a coefficient using the wrong pool shows
Tpl(id) ==
    CASE id = "chain" -> [cpds |-> <<"A", "B">>,
                          init |-> [A |-> 12, B |-> 6], pars |-> [k0 |-> 12, k1 |-> 1, k2 |-> 2],
                          rxns |-> <<Rx("v0", <<>>, <<"A">>, <<"k0">>),
                                     Rx("v1", <<"A">>, <<"B">>, <<"k1", "A">>),
                                     Rx("v2", <<"B">>, <<>>, <<"k2", "B">>)>>]
      \* the chain with a compound whose name ends in an underscore next to its prefix (positions A__0.. and A___0..)
      [] id = "under" -> [cpds |-> <<"A", "A_">>,
                          init |-> [n \in {"A", "A_"} |-> IF n = "A" THEN 12 ELSE 3], pars |-> [k0 |-> 12, k1 |-> 1, k2 |-> 4],
                          rxns |-> <<Rx("v0", <<>>, <<"A">>, <<"k0">>),
                                     Rx("v1", <<"A">>, <<"A_">>, <<"k1", "A">>),
                                     Rx("v2", <<"A_">>, <<>>, <<"k2", "A_">>)>>]
      [] id = "cycle" -> [cpds |-> <<"A", "B">>,
                          init |-> [A |-> 12, B |-> 6], pars |-> [k1 |-> 1, k2 |-> 2],
                          rxns |-> <<Rx("v1", <<"A">>, <<"B">>, <<"A", "k1">>),
                                     Rx("v2", <<"B">>, <<"A">>, <<"B", "k2">>)>>]
      [] id = "bi"    -> [cpds |-> <<"A", "B", "C">>,
                          init |-> [A |-> 12, B |-> 6, C |-> 4], pars |-> [k0 |-> 72, k1 |-> 1, k2 |-> 18, k3 |-> 72],
                          rxns |-> <<Rx("v0", <<>>, <<"A">>, <<"k0">>),
                                     Rx("v3", <<>>, <<"B">>, <<"k3">>),
                                     Rx("v1", <<"A", "B">>, <<"C">>, <<"A", "B", "k1">>),
                                     Rx("v2", <<"C">>, <<>>, <<"k2", "C">>)>>]
      [] id = "split" -> [cpds |-> <<"A", "B", "C">>,
                          init |-> [A |-> 12, B |-> 6, C |-> 4], pars |-> [k0 |-> 12, k1 |-> 1, k2 |-> 2, k3 |-> 3],
                          rxns |-> <<Rx("v0", <<>>, <<"A">>, <<"k0">>),
                                     Rx("v1", <<"A">>, <<"B", "C">>, <<"k1", "A">>),
                                     Rx("v2", <<"B">>, <<>>, <<"k2", "B">>),
                                     Rx("v3", <<"C">>, <<>>, <<"k3", "C">>)>>]
      [] id = "homo"  -> [cpds |-> <<"A", "B">>,
                          init |-> [A |-> 6, B |-> 12], pars |-> [k0 |-> 72, k1 |-> 1, k2 |-> 3],
                          rxns |-> <<Rx("v0", <<>>, <<"A">>, <<"k0">>),
                                     Rx("v1", <<"A", "A">>, <<"B">>, <<"A", "A", "k1">>),
                                     Rx("v2", <<"B">>, <<>>, <<"B", "k2">>)>>]
      [] id = "dimer" -> [cpds |-> <<"A", "B">>,
                          init |-> [A |-> 12, B |-> 6], pars |-> [k0 |-> 12, k1 |-> 1, k2 |-> 4],
                          rxns |-> <<Rx("v0", <<>>, <<"A">>, <<"k0">>),
                                     Rx("v1", <<"A">>, <<"B", "B">>, <<"A", "k1">>),
                                     Rx("v2", <<"B">>, <<>>, <<"k2", "B">>)>>]
      \* three units on one side; homo3 mentions the doubled substrate non-adjacently in the rate arguments
      [] id = "tri3"  -> [cpds |-> <<"A", "B", "C", "D">>,
                          init |-> [A |-> 12, B |-> 6, C |-> 4, D |-> 3],
                          pars |-> [k0 |-> 288, k3 |-> 288, k4 |-> 288, k1 |-> 1, k2 |-> 96],
                          rxns |-> <<Rx("v0", <<>>, <<"A">>, <<"k0">>), Rx("v3", <<>>, <<"B">>, <<"k3">>),
                                     Rx("v4", <<>>, <<"C">>, <<"k4">>),
                                     Rx("v1", <<"A", "B", "C">>, <<"D">>, <<"A", "B", "C", "k1">>),
                                     Rx("v2", <<"D">>, <<>>, <<"k2", "D">>)>>]
      [] id = "split3" -> [cpds |-> <<"A", "B", "C", "D">>,
                          init |-> [A |-> 12, B |-> 6, C |-> 4, D |-> 3],
                          pars |-> [k0 |-> 12, k1 |-> 1, k2 |-> 2, k3 |-> 3, k4 |-> 4],
                          rxns |-> <<Rx("v0", <<>>, <<"A">>, <<"k0">>),
                                     Rx("v1", <<"A">>, <<"B", "C", "D">>, <<"k1", "A">>),
                                     Rx("v2", <<"B">>, <<>>, <<"k2", "B">>), Rx("v3", <<"C">>, <<>>, <<"k3", "C">>),
                                     Rx("v4", <<"D">>, <<>>, <<"k4", "D">>)>>]
      [] id = "homo3" -> [cpds |-> <<"A", "B", "C">>,
                          init |-> [A |-> 6, B |-> 4, C |-> 12], pars |-> [k0 |-> 288, k3 |-> 144, k1 |-> 1, k2 |-> 12],
                          rxns |-> <<Rx("v0", <<>>, <<"A">>, <<"k0">>), Rx("v3", <<>>, <<"B">>, <<"k3">>),
                                     Rx("v1", <<"A", "A", "B">>, <<"C">>, <<"A", "B", "A", "k1">>),
                                     Rx("v2", <<"C">>, <<>>, <<"C", "k2">>)>>]
      [] id = "trimer" -> [cpds |-> <<"A", "B">>,
                          init |-> [A |-> 12, B |-> 6], pars |-> [k0 |-> 12, k1 |-> 1, k2 |-> 6],
                          rxns |-> <<Rx("v0", <<>>, <<"A">>, <<"k0">>),
                                     Rx("v1", <<"A">>, <<"B", "B", "B">>, <<"A", "k1">>),
                                     Rx("v2", <<"B">>, <<>>, <<"k2", "B">>)>>]
      [] id = "tri"   -> [cpds |-> <<"A", "B", "C">>,
                          init |-> [A |-> 12, B |-> 6, C |-> 4], pars |-> [k1 |-> 1, k2 |-> 2, k3 |-> 3],
                          rxns |-> <<Rx("v1", <<"A">>, <<"B">>, <<"A", "k1">>),
                                     Rx("v2", <<"B">>, <<"C">>, <<"B", "k2">>),
                                     Rx("v3", <<"C">>, <<"A">>, <<"C", "k3">>)>>]

T == Reorder(Tpl(tpl), ord)

Content ==
    [cpds |-> T.cpds,
     nl   |-> [c \in Range(T.cpds) |-> IF c \in DOMAIN nl THEN nl[c] ELSE 0],
     init |-> T.init, pars |-> T.pars, der |-> Empty,
     rxns |-> [j \in DOMAIN T.rxns |-> [T.rxns[j] EXCEPT !.map = IF j \in DOMAIN maps THEN maps[j] ELSE <<>>]]]

Init ==
    /\ tpl \in Tpls
    /\ ord \in Ords
    /\ nl = Empty /\ maps = Empty /\ ci = 1 /\ ri = 1 /\ dk = Empty
    /\ stage = "nl"
    /\ sc = <<>>

PickNL ==
    /\ stage = "nl"
    /\ IF ci <= Len(T.cpds)
       THEN /\ \E n \in 1..MaxNL : nl' = nl @@ (T.cpds[ci] :> n)
            /\ ci' = ci + 1
            /\ UNCHANGED <<stage, maps>>
       ELSE /\ \A j \in DOMAIN T.rxns : NSrc(Content, Content.rxns[j]) <= MaxL
            /\ stage' = "map"
            /\ maps' = (1 :> <<>>)
            /\ UNCHANGED <<nl, ci>>
    /\ UNCHANGED <<tpl, ord, ri, dk, sc>>

\* an entry may be appended when the map can still become an involution (OnlyInvolutive)
CanAppend(m, e, L) ==
    ~OnlyInvolutive \/
    LET k == Len(m) + 1 IN
       /\ \A i \in DOMAIN m : m[i] # e                       \* injective
       /\ (e + 1 < k => m[e + 1] = k - 1)                    \* partner already placed: it must point back
       /\ \A i \in DOMAIN m : (m[i] = k - 1) => e = i - 1    \* somebody points here: point back

FocusOk(r, m, L) ==
    (Focus /\ (SLab(Content, r) = 0 \/ PLab(Content, r) = 0)) =>
        \/ m = [i \in 1..L |-> i - 1]
        \/ m = [i \in 1..L |-> L - i]
        \/ m = [i \in 1..L |-> 0]

PickEntry ==
    /\ stage = "map"
    /\ LET L == NSrc(Content, Content.rxns[ri]) IN
       IF Len(maps[ri]) < L
       THEN /\ \E e \in 0..(L - 1) : CanAppend(maps[ri], e, L) /\ maps' = [maps EXCEPT ![ri] = Append(@, e)]
            /\ UNCHANGED <<ri, stage, ci>>
       ELSE IF ~FocusOk(Content.rxns[ri], maps[ri], L) THEN FALSE
       ELSE IF ri < Len(T.rxns)
            THEN ri' = ri + 1 /\ maps' = maps @@ ((ri + 1) :> <<>>) /\ UNCHANGED <<stage, ci>>
            ELSE stage' = "dist" /\ ci' = 1 /\ UNCHANGED <<ri, maps>>
    /\ UNCHANGED <<tpl, ord, nl, dk, sc>>

NDist == 4
Salt == SumSeq([j \in 1..Len(T.rxns) |-> IF j \in DOMAIN maps THEN SumSeq(maps[j]) ELSE 0])

W3 == <<1, 2, 3, 6, 1, 1, 2, 2>>
W4 == <<5, 0, 4, 3, 0, 2, 1, 0>>
RECURSIVE BitVal(_)
BitVal(bits) == IF Len(bits) = 0 THEN 0 ELSE 2 * BitVal(SubSeq(bits, 1, Len(bits) - 1)) + bits[Len(bits)]
\* amount of isotopomer number q (0-based, binary value of its bits) of a compound with n isotopomers and pool tot
Share(k, tot, n, q) ==
    CASE k = 1 -> IF q = 0 THEN tot ELSE 0
      [] k = 2 -> IF q = n - 1 THEN tot ELSE 0
      [] OTHER ->
         LET w == IF k = 3 THEN W3 ELSE W4
             ws == SumSeq(SubSeq(w, 1, n))
             part(i) == (tot * w[i + 1]) \div ws
             given == SumSeq([i \in 1..n |-> part(i - 1)])
         IN part(q) + (IF q = k % n THEN tot - given ELSE 0)

DistOf(b, d) ==
    LET idx == IsoIndex(b)
    IN [n \in {rec.n : rec \in idx} |->
          LET rec == CHOOSE x \in idx : x.n = n
          IN Share(d[rec.c], b.init[rec.c], Pow2(b.nl[rec.c]), BitVal(rec.bits))]

Xs == <<Q!Zero, Q!R(1, 2), Q!R(2, 3), Q!One>>

\* everything the specification says about the finished case, computed once
Compute(d) ==
    LET b     == Content
        y     == DistOf(b, d)
        pool  == [c \in CpdSet(b) |-> b.init[c]]
        flux  == [j \in DOMAIN b.rxns |-> BRate(b, pool, b.rxns[j])]
        e0    == Enrich(b, y)
        isody == LRhs(b, y, "occurrence")
        inv   == \A j \in DOMAIN b.rxns : Involutive(b, b.rxns[j])
        uni(x) == [n \in DOMAIN e0 |-> x]
    IN [tpl |-> tpl, ord |-> ord, b |-> b, dk |-> d, pool |-> pool, fluxi |-> flux,
        flux |-> [n \in {b.rxns[j].name : j \in DOMAIN b.rxns} |-> flux[CHOOSE j \in DOMAIN b.rxns : b.rxns[j].name = n]],
        y |-> y, totals |-> Totals(b, y), steady |-> \A c \in CpdSet(b) : BRhs(b, pool)[c] = 0,
        isody |-> isody, involutive |-> inv, e0 |-> e0,
        iso |-> IsoEnrichRateD(b, y, isody),
        lin |-> [k \in 1..Len(Xs) |-> LinRhs(b, pool, flux, e0, Xs[k], LinMode)],
        uni |-> [k \in 1..Len(Xs) |-> LinRhs(b, pool, flux, uni(Xs[k]), Xs[k], LinMode)],
        \* the model is homogeneous of degree 0 in (pools, fluxes): the unit of amount does not matter
        scaled |-> [m \in 2..3 |-> LinRhs(b, [c \in DOMAIN pool |-> m * pool[c]], [j \in DOMAIN flux |-> m * flux[j]],
                                         e0, Xs[2], LinMode)],
        \* pool sizes are parameters of the built model too: pools doubled (fluxes as they are)
        pool2 |-> LinRhs(b, [c \in DOMAIN pool |-> 2 * pool[c]], flux, e0, Xs[2], LinMode),
        \* a session on ONE LinearLabelMapper: build, then the BASE model's reactions are edited so that the compounds of
        \* every reaction side are written in the opposite order (maps are positional: another labelling network), then
        \* build again; the second build is the linear model of the edited base model
        sess |-> LET b2 == Reorder(b, "swap") IN
                 IF b2 = b THEN <<>>
                 ELSE LET y2 == LRhs(b2, y, "occurrence") IN
                      <<[b2 |-> b2, x |-> Q!One, e |-> e0,
                         de  |-> LinRhs(IF SessMemo THEN b ELSE b2, pool, flux, e0, Q!One, "doc"),
                         iso |-> IsoEnrichRateD(b2, y, y2),
                         inv2 |-> \A j \in DOMAIN b2.rxns : Involutive(b2, b2.rxns[j])]>>,
        pin |-> IF inv THEN [k \in 1..Len(Xs) |-> LinRhs(b, pool, flux, e0, Xs[k], "pinned")] ELSE <<>>,
        doc |-> IF inv THEN [k \in 1..Len(Xs) |-> LinRhs(b, pool, flux, e0, Xs[k], "doc")] ELSE <<>>]

PickDist ==
    /\ stage = "dist"
    /\ IF ci <= Len(T.cpds)
       THEN /\ IF DistAll THEN \E k \in Dists : dk' = dk @@ (T.cpds[ci] :> k)
               ELSE dk' = dk @@ (T.cpds[ci] :> ((Salt + ci) % NDist) + 1)
            /\ ci' = ci + 1 /\ UNCHANGED <<stage, sc>>
       ELSE stage' = "done" /\ sc' = Compute(dk) /\ UNCHANGED <<dk, ci>>
    /\ UNCHANGED <<tpl, ord, nl, maps, ri>>

Next == PickNL \/ PickEntry \/ PickDist
Done == stage = "done"

SmallUnit == 24      \* pools 4..12 become 2.4e-7 .. 7.2e-7
ZeroFn == [n \in DOMAIN sc.e0 |-> Q!Zero]

\* histories of the external enrichment (indices into Xs): build_model(external_label = Xs[h[1]]), then
\* update_parameter("EXT", Xs[h[2]]), then update_parameter("EXT", Xs[h[3]]); after every update the right-hand side is
\* the one of EXT = the value just set (ModelRhs of LinearLabel), and uniform enrichment equal to it is stationary
Hists == << <<1, 4, 2>>, <<2, 1, 4>>, <<4, 1, 3>> >>
IdxOf(x) == CHOOSE k \in 1..Len(Xs) : Xs[k] = x
HistEvals ==
    [i \in 1..Len(Hists) |->
        [x0 |-> Xs[Hists[i][1]],
         steps |-> [j \in 1..(Len(Hists[i]) - 1) |->
                      LET m == AfterHistory([q \in 1..(j + 1) |-> Xs[Hists[i][q]]])
                          k == IdxOf(m.ext)
                      IN [x |-> m.ext, e |-> sc.e0, de |-> sc.lin[k],
                          ue |-> [n \in DOMAIN sc.e0 |-> m.ext], ude |-> sc.uni[k]]]]]

Scenario ==
    [tpl |-> sc.tpl, ord |-> sc.ord, b |-> sc.b, dk |-> sc.dk, pool |-> sc.pool, flux |-> sc.flux, y |-> sc.y, isody |-> sc.isody,
     involutive |-> sc.involutive, hist |-> HistEvals,
     \* the same case with amounts in a unit 2^SmallUnit times larger (pools and fluxes 2^-SmallUnit times the numbers):
     \* by ThScale the rates are those of the case itself
     \* build(pools, fluxes, EXT = 1/2), evaluate, update_parameters(pools doubled), evaluate, update_parameters(fluxes
     \* doubled), evaluate: LinRhs at the parameter values in force (the last equals the first by ThScale)
     pool_hist |-> <<[mul_pool |-> 1, mul_flux |-> 1, x |-> Xs[2], e |-> sc.e0, de |-> sc.lin[2]],
                     [mul_pool |-> 2, mul_flux |-> 1, x |-> Xs[2], e |-> sc.e0, de |-> sc.pool2],
                     [mul_pool |-> 2, mul_flux |-> 2, x |-> Xs[2], e |-> sc.e0, de |-> sc.scaled[2]]>>,
     sess |-> sc.sess,
     \* `concs` is the full steady state of the base model: bystander variables no mapped reaction touches, one of them
     \* literally called EXT (its amount is NOT the external enrichment)
     extra_concs |-> [EXT |-> 5, W |-> 7],
     unit_evals |-> <<[unit |-> SmallUnit, x |-> Xs[2], e |-> sc.e0, de |-> sc.lin[2]]>>,
     evals |-> <<[what |-> "isotopomer-derived", x |-> Q!One, e |-> sc.e0, de |-> sc.iso]>>
               \o [k \in 1..2 |-> [what |-> "linear definition, EXT below 1", x |-> Xs[k], e |-> sc.e0, de |-> sc.lin[k]]]
               \o [k \in 1..Len(Xs) |-> [what |-> "uniform enrichment equal to EXT", x |-> Xs[k],
                                         e |-> [n \in DOMAIN sc.e0 |-> Xs[k]], de |-> ZeroFn]]]

Emit == (EmitOn /\ Done) => PrintT("@J@" \o ToJson(Scenario) \o "@E@")

ThSteady   == Done => sc.steady /\ \A c \in DOMAIN sc.pool : sc.pool[c] > 0
ThDist     == Done => sc.totals = sc.pool /\ \A n \in DOMAIN sc.y : sc.y[n] >= 0
ThLinIsIso == Done => sc.lin[4] = sc.iso                                   \* Xs[4] = 1: the external pool fully labelled
ThUniform  == Done => \A k \in 1..Len(Xs) : sc.uni[k] = ZeroFn
ThZero     == Done => sc.uni[1] = ZeroFn                                   \* Xs[1] = 0: no label anywhere, none appears
\* the model's answer depends on the external enrichment last set, not on the one it was built with
ThParam    == Done => \A i \in 1..Len(Hists) : \A j \in 2..Len(Hists[i]) :
                 AfterHistory([q \in 1..j |-> Xs[Hists[i][q]]]) = BuiltModel(Xs[Hists[i][j]])
\* second build of a session = the linear model of the edited base model = the isotopomer model of the edited base model
ThSess     == (Done /\ sc.sess # <<>>) => sc.sess[1].de = sc.sess[1].iso
ThScale    == Done => \A m \in 2..3 : sc.scaled[m] = sc.lin[2]
ThInvol    == (Done /\ sc.involutive) => sc.pin = sc.doc
\* every rational stayed in Rat's safe range
ThSafe     == Done => \A n \in DOMAIN sc.e0 : Q!IsRat(sc.iso[n]) /\ Q!IsRat(sc.e0[n]) /\ \A k \in 1..Len(Xs) : Q!IsRat(sc.lin[k][n])
=============================================================================
