#!/venv/bin/python
"""Regenerates /verif/seeded/INDEX.md from the meta.json files of the kept seeded changes."""
import json
from pathlib import Path

root = Path("/verif/seeded")

# seeded changes the quick check of the day did NOT catch at first, and what was strengthened (then re-tried)
STRENGTHENED = {
    "C03-mut_C03-m1": "missed at first (update_derived(fn=...) without args= kept a stale cache); ModelEdit got function-only / "
                      "arguments-only update modes for update_derived and update_reaction",
    "C07-mut_C07-m2": "missed at first (if-branch translated on the shared symbol table in fn_to_sympy); FnLib got `cut` (local "
                      "re-bound inside a one-sided if)",
    "C11-mut_C11-m2": "missed at first (zip(strict=True) dropped: helper called with a defaulted parameter); FnLib got the optional-"
                      "translatable `dflt`, the C06 oracle corpus got helper calls with defaulted / keyword arguments",
    "C12-mut_C12-m2": "missed at first (Jacobian closure captured parameter values at construction); the closure is now also called "
                      "after Simulator.update_parameter and compared with the specification's Jacobian for p := 5 - which exposed "
                      "a genuine defect (fixed, a665c2e)",
    "C13-mut_C13-m2": "missed at first (static/dynamic split of computed coefficients read the reaction's arguments); C13 now also "
                      "compares stoichiometries and derivatives at states != initial",
    "C09-mut_C09-m2": "missed at first (scan column naming an assignment-defined parameter dropped); ParMap got the column q",
    "C15-mut_C15-m2": "missed at first (get_result returned earlier results after a failed steady-state search); SteadyLoop got "
                      "a history (none / earlier simulate / simulate+clear) and a refuted wrong reporter instance",
    "C16-mut_C16-m1": "missed at first (position expansion of a compound with coefficient 2 and 2 positions); new family `doubled`",
    "C06-mut_C11-m2": "the C06 check did not catch this C11-targeted change at first; caught after the corpus extension",
    # ---- round 2 (subtler changes; authors knew what round 1 had done) -------------------------------------------
    "C01-mut_C01-r2m1": "an edit-history defect (lost invalidation in update_reaction): outside what C01 exercises (no edits); "
                        "caught by C03, see C03-mut_C01-r2m1",
    "C01-mut_C01-r2m2": "missed at first (a surrogate flux's computed coefficient overwrote the variable's other computed "
                        "coefficients); ModelEval's surrogate stoichiometry menu got state/time-dependent coefficients",
    "C02-mut_C02-r2m2": "missed at first by C02 (caught by C13 and C01): C02 now also evaluates scenarios with a component rendered "
                        "as an assignment-defined variable at a supplied state (DepSort `Given`)",
    "C03-mut_C03-r2m1": "missed at first (get_stoichiometries wrote into the cached table); ModelEdit got state/time-dependent "
                        "coefficients and the stoichiometry table as a query (asked first)",
    "C06-mut_C06-r2m1": "missed at first (chained assignment bound its first target only); Chain statement in the core + corpus",
    "C06-mut_C06-r2m2": "missed at first (module constants cached per module); oracle runs a second pass after re-binding constants",
    "C06-mut_C07-r2m2": "missed at first (KNOWN_FNS rows applied to symbolic arguments); every row of the table is now exercised - "
                        "which exposed a genuine defect (np.positive -> Abs, fixed 95400b8)",
    "C07-mut_C07-r2m2": "missed at first by C07; FnLib got the optional-translatable `cap` (np.minimum)",
    "C08-mut_C08-m2":  "a session defect (generated source keyed by file stem; re-export of the model imported first): outside C08's "
                        "single round trip; caught by C17 after SbmlSession got Export, see C17-mut_C08-m2",
    "C17-mut_C08-m2":  "missed at first; SbmlSession got Export(model_i) and twin documents (same layout, other meaning)",
    "C09-mut_C09-r2m2": "missed at first (y0 re-applied after the Monte-Carlo row); ParMap got the y0 argument (row > y0 > model)",
    "C11-mut_C11-r2m2": "missed at first (non-simultaneous renaming): fnlib formal parameters now coincide with model names",
    "C13-mut_C13-r2m1": "an edit-history defect (update_variable keeping the cache): outside what C13 exercises; caught by C03, see "
                        "C03-mut_C13-r2m1",
    "C14-mut_C14-r2m1": "missed at first (computed views cached across a continuation); read op realised by touching the views",
    "C14-mut_C14-r2m2": "missed at first (first requested point within 1e-5*t of a boundary dropped); epsilon component of time and a "
                        "LARGE rendering (tick 512 s)",
    "C15-mut_C15-r2m1": "missed at first (NaN norm counted as converged); SteadyLoop got undefined norms (0/0, overflow)",
    "C15-mut_C15-r2m2": "missed at first by C15 (caught by C10); two-run history with per-point flux balance",
    "C18-mut_C18-r2m1": "missed at first (state re-derived after each displacement); network with assignment-defined initial values",
    "C19-mut_C19-r2m2": "missed at first (lru_cache on the loader); in-process histories Run/Rerun/ClearCache/Mutate, RightResults",
    "C20-mut_C20-r2m1": "missed at first (parameter labels sorted in the minimiser); fits with non-alphabetical p0, first Eval = p0",
    "C20-mut_C20-r2m2": "missed at first (loss arguments swapped in the unscaled branch); Law3 fixes the orientation of asymmetric losses",
    "C16-mut_C16-r2m1": "missed at first (label influx reactions skipped when built with EXT = 0, EXT updated later); EXT is now a "
                        "parameter of the built model: build / update_parameter histories",
    # ---- round 3 (C01, C02, C03, C13, C07, C11, C12; authors knew rounds 1 and 2) ---------------------------------
    "C01-mut_C01-r3m2": "missed at first (time-course forms read the state table by column position); frames with permuted columns",
    "C02-mut_C02-r3m2": "missed at first (a surrogate also 'provided' its own name); the provider's own name is now a requirable, "
                        "never-provided name in DepSort",
    "C03-mut_C03-r3m2": "missed at first (update_data keeping the cache; shows only through an initial assignment reading the data "
                        "set); seed content `dataia`",
    "C07-mut_C07-r3m1": "missed at first (untranslatable computed coefficient silently skipped); StMenu offers such a coefficient",
    "C11-mut_C11-r3m1": "missed at first (module-level constant shadowing a parameter); fnlib has module floats named like formals",
    "C11-mut_C11-r3m2": "missed at first (tuple assignment bound one name at a time); FnLib `swp`",
    "C12-mut_C12-r3m1": "missed at first (identical contributions collapsed in a set); ModelEval `Twin` reactions",
    "C12-mut_C12-r3m2": "missed at first (Jacobian lambdified over the key order of a supplied y0); closure built with y0 reversed",
    # ---- round 3 (round 2 for C08/C17), the other properties -------------------------------------------------------
    "C06-mut_C06-r3m1": "missed at first (branch symbol table copied only when the branch's own body assigns); Translate `PassOn` "
                        "(empty then-branch), profile `guard` (nested fall-through ifs, self-referential re-bindings)",
    "C06-mut_C06-r3m2": "missed at first (`if not value` treated a zero-valued local as unbound); chunk modules carry module floats "
                        "named like locals / parameters (SHADOWS), corpus functions with zero-valued locals",
    "C08-mut_C08-r2m2": "missed at first (multi-statement bodies exported by their last return only); UseBody: six multi-statement "
                        "library bodies as regular members, invariant BodyAgrees",
    "C09-mut_C09-r3m1": "missed at first (scanned parameter names matched by a pattern); naming schemes plain / keyword / underscore / "
                        "operator / mixed carried in the scenario",
    "C10-mut_C10-r3m1": "missed at first (normalisation divided the stored frames in place); ResultViewsMC tracks rawdiv / taint, "
                        "invariant ResultUnchanged, raw frames snapshotted and compared after every read",
    "C10-mut_C10-r3m2": "missed at first (surrogate coefficient taken from the first segment only); surrogate flux with the "
                        "parameter-computed coefficient 2p, p differing between segments",
    "C04-mut_C04-r3m2": "a model-edit defect (update_parameter ignoring a zero value): caught by C03 (C03-mut_C04-r3m2) after ModelEdit's "
                        "value menu got 0",
    "C16-mut_C16-r3m1": "a label-expansion defect (unit of a repeated substrate chosen by argument index): outside the families C16 "
                        "compares; caught by C05, the owning check, see C05-mut_C16-r3m1",
    "C14-mut_C14-r3m1": "missed at first (relative time grid aliased by np.asarray and shifted in place); the caller keeps and reuses "
                        "its grid object (Run.grid), SimulatorProto action Again",
    "C18-mut_C18-r3m1": "missed at first (abs(old) in the elasticity quotient); Mca network `sgn` with a negative parameter and a "
                        "negative state, invariant SignedWitness",
    "C18-mut_C18-r3m2": "missed at first (supplied initial values remembered as numbers); Mca network `iac` holding assignment rules, "
                        "raw variables / parameters compared before and after every call",
    "C19-mut_C19-r3m2": "missed at first (result-file names made shell-friendly, distinct keys collide); CacheCrash: stored entry Nm(k), "
                        "invariant Injective, sibling keys in every family, wrong instance LossyNames",
    "C20-mut_C20-r3m2": "missed at first (per-experiment overrides of a joint fit leak into later experiments); spec/FitJoint.tla",
    # ---- round 4 ----------------------------------------------------------------------------------------------------
    "C01-mut_C01-r4m1": "missed at first (coefficient memo keyed by flux name in the named right-hand side); ModelEval StMenu got one "
                        "flux with two different state- / time-dependent coefficients on two variables",
    "C01-mut_C01-r4m2": "NOT JUDGED: needs a supplied table whose flux columns contradict the row's state; such tables are outside the "
                        "property's domain (a state is time + variable values) and the unchanged library itself answers them "
                        "inconsistently (get_right_hand_side_time_course trusts a supplied flux column, get_fluxes_time_course "
                        "recomputes it)",
    "C02-mut_C02-r4m1": "an edit-history defect (update_derived without cache invalidation): outside what C02 exercises; caught by C03, "
                        "see C03-mut_C02-r4m1",
    "C03-mut_C03-r4m1": "covered by an extension made on reading the change, before the trial (validation after the side effect in "
                        "remove_variable needs a stoichiometry addressing a name that is not a variable): remove_variable keeping "
                        "stoichiometries, reactions declared before their variable, seed `dangle`, variable-only alphabet to depth 2/3",
    "C03-mut_C03-r4m2": "covered by the same extension (update_surrogate given a replacement object): op replace_surrogate",
    "C11-mut_C11-r4m1": "missed at first (parsed function bodies cached by module + qualified name); fnlib_alias.TWIN: two closures of "
                        "one factory, a third of the models",
    "C11-mut_C11-r4m2": "missed at first (model symbols created nonnegative: sign tests fold at generation time); FnLib `pos` (test "
                        "against the literal 0) and negative states at the third observation point",
    "C13-mut_C13-r4m2": "an edit-history defect (make_variable_static turning an initial assignment into a derived quantity): outside "
                        "what C13 exercises; caught by C03, see C03-mut_C13-r4m2",
    "C12-mut_C12-r4m2": "missed at first (initial conditions rebuilt with computed variables last: symbolic variables and equations "
                        "misaligned); ModelEval declares an assignment-defined variable before or after the plain ones",
    "C08-mut_C08-r3m1": "missed at first (n-ary min / max exported with two arguments); SbmlRoundTrip library functions with 3- and "
                        "4-argument min / max and a three-link comparison chain, every position in turn the extremum",
    "C17-mut_C17-r3m1": "a dependency-sorting defect (iteration bound 2n): chains of four or more rules listed against their "
                        "dependencies are beyond C17's documents; caught by C02, the owning check, see C02-mut_C17-r3m1",
    # ---- round 4, the other properties (round 3 for C08 / C17) ------------------------------------------------------
    "C05-mut_C05-r4m2": "missed at first (isotopomer table memoised on the mapper); spec/LabelExpandSession.tla (Build / MutateFields / "
                        "Build on one mapper, memo instance refuted)",
    "C10-mut_C10-r4m2": "missed at first (one args memo shared by every result the Simulator hands out); spec/ResultViewsSession.tla "
                        "(Continue / GetResult / Read interleavings) - which also exposed a genuine defect (fixed bfbb5a4)",
    "C15-mut_C15-r4m1": "ended in exit 2 at first (a steady-state search continuing earlier work stored zero rows; the KeyError escaped "
                        "through the harness); every library phase of the steady-state replay now turns an exception into an "
                        "answer, histories simulate_protocol -> search and simulate -> update_variables -> search",
    "C15-mut_C15-r4m2": "missed at first (scan worker dropped rel_norm); scan entry points with both norms on a family where the norms "
                        "decide differently, wrong instance SteadyLoop_scan_abs refuted",
    "C09-mut_C09-r4m1": "missed at first (mc.steady_state paired results with rows by label); label schemes range / shuffled / strings / "
                        "repeated, rows identified by position, KeyedByLabel refuted; exposed the known finding repeated-labels-collapse",
    "C14-mut_C14-r4m1": "missed at first (make_protocol bound values by position); a protocol step is a partial function name -> value, "
                        "key order and omitted parameters are rendering choices; exposed a genuine defect (fixed bc6b273)",
    "C18-mut_C18-r4m2": "missed at first (unscaled elasticities rounded to 8 digits); theorem Homogeneous, every point replayed as a scaled "
                        "twin (constants x 2^-30, pools x 2^-7) judged relatively",
    "C19-mut_C19-r4m1": "missed in my trial (leftover temporary files promoted before dispatch; the owner could not reproduce the miss); "
                        "wrong instance Recover = TRUE refuted, kills strictly inside a write on every seed",
    "C19-mut_C19-r4m2": "missed at first (scan.protocol_time_course dropped cache=); constant Forwards, invariants AllStored / "
                        "ComputesExactlyMissing, in-process histories through all 12 public entry points that take cache=",
    "C20-mut_C20-r4m2": "missed at first (ensemble_time_course dropped loss_fn); spec/FitEnsemble.tla: a wrapper forwards every option, "
                        "dropped-option instances refuted, ensemble_* and carousel_* entry points",
    # ---- round 5 (round 4 for C08 / C17) ---------------------------------------------------------------------------
    "C02-mut_C02-r5m1": "a result-reading defect (get_parameter_values returning assignment-defined values, written back by results): "
                        "outside what C02 exercises; caught by C04 and C13, see C04-mut_C02-r5m1",
    "C02-mut_C02-r5m2": "a code-generation defect (derived parameters hoisted in declaration order): outside what C02 exercises; caught by "
                        "C07, the owning check, see C07-mut_C02-r5m2",
    "C06-mut_C06-r5m2": "missed at first (a called bare name looked up in the module before function-level imports); scopes as a regular "
                        "dimension of Expr / Translate (imports with aliases, closure cells, module globals) - the same pass repaired "
                        "four genuine name-resolution defects (68d2ba3, e893b8c, 4245bf9, a99b85f)",
    "C11-mut_C11-r5m1": "missed at first (disambiguated name never checked against a function literally called like it); fnlib_alias got "
                        "the literal inc_2",
    "C11-mut_C11-r5m2": "missed at first (>= translated as >); FnLib pos now jumps AT its threshold, states contain 0",
    "C12-mut_C12-r5m2": "covered by an extension made on reading the change (static fractional coefficients truncated by sympy.Integer): "
                        "symbolic equations of the fractional variants judged by the rational oracle",
    "C13-mut_C13-r5m2": "a Simulator defect (update_variables in place on the model's cached initial conditions): outside what C13 "
                        "exercises; caught by C04, see C04-mut_C13-r5m2",
    "C16-mut_C16-r5m2": "missed at first (the linear mapper kept its copy of the base reactions); sessions Build / edit base / Build on the "
                        "linear mapper, theorem ThSess, memo instance refuted",
    "C04-mut_C04-r5m1": "missed at first (requested time points lost dtype=float: integer-typed grids truncate the inserted reached time); "
                        "integer-typed renderings of requested grids at non-integral reached times",
    "C04-mut_C04-r5m2": "missed at first (parameter updates re-initialise the integrator when use_jacobian=True); the Simulator's "
                        "construction options are a dimension of the histories",
    "C12-mut_C04-r5m2": "a continuation defect of the Simulator under use_jacobian=True: outside what C12 exercises (closures and short "
                        "trajectories of fresh simulators); owned by C04, see C04-mut_C04-r5m2",
    "C09-mut_C09-r5m1": "a cache file-name defect (Path.with_suffix collapses labels that differ after the last dot): scans without a cache "
                        "are unaffected; caught by C19, the owning check, see C19-mut_C09-r5m1",
    "C10-mut_C10-r5m1": "missed at first (get_combined joined by label); the two-segment layout stores the switch point in both segments",
    "C15-mut_C15-r5m1": "missed at first (state columns labelled with the keys of the supplied y0); user-supplied initial values are handed "
                        "over in reverse declaration order for two of three cases",
    "C04-mut_C15-r5m1": "the same change seen from C04: its histories supply y0 in declaration order only; owned by C15, see C15-mut_C15-r5m1",
    "C15-mut_C15-r5m2": "a scan defect (assignment-defined scanned parameters ignored by the per-row helper; the reported fluxes still "
                        "balance): caught by C09, the owning check, see C09-mut_C15-r5m2",
    "C18-mut_C18-r5m1": "missed at first by C18 (update_variable skipping a value of exactly 0; caught by C03 at once); zero as a regular "
                        "value of supplied states and of the model's own initial values",
    "C18-mut_C18-r5m2": "missed at first (mc.variable_elasticities wrote the explicit state into the caller's model); the mc.* wrappers of "
                        "the MCA routines are replayed (explicit state wins, model untouched) - which exposed a genuine defect in "
                        "mc.response_coefficients (fixed 696c75d)",
    "C20-mut_C20-r5m1": "missed at first (shared defaults written into the caller's FitSettings); FitJoint HistoryFree: two-call histories "
                        "on one settings list, settings compared before / after, write-back instance refuted",
    "C20-mut_C20-r5m2": "missed at first (joint_mixed computed its name filter from the first model only); experiments over a poorer and a "
                        "richer model in every order, joint_mixed as an entry point",
    # ---- round 6 (round 5 for C08 / C17) ---------------------------------------------------------------------------
    "C01-mut_C01-r6m1": "an edit defect (update_parameter ignoring the value 0): outside what C01 exercises (models are built, not "
                        "edited); caught by C03, see C03-mut_C01-r6m1",
    "C01-mut_C01-r6m2": "missed at first (get_args / get_fluxes ignore the time when the state is omitted); ModelEval's fourth point: "
                        "the declared initial state at a later time, asked with the time only",
    "C02-mut_C02-r6m1": "missed at first (base parameter values filtered by isinstance(int | float): numpy scalars dropped); numbers are "
                        "rendered as Python float / int or numpy scalars (np.int64, np.float32, np.float64) by a seeded choice",
    "C02-mut_C02-r6m2": "an edit-history defect (make_variable_static freezing an assignment into a number): outside what C02 exercises; "
                        "caught by C03, see C03-mut_C02-r6m2",
    "C11-mut_C11-r6m2": "missed at first (a new KNOWN_FNS row math.log2 with the base of log10, visible on constant arguments); FnLib lg2 "
                        "(a library call on a constant) as an optional translatable; also caught by C06's sweep over math / numpy by name",
    "C13-mut_C13-r6m1": "a query defect (get_fluxes ignoring its time argument): C13 does not ask for fluxes at supplied times; caught by "
                        "C01, the owning check, see C01-mut_C13-r6m1",
    "C13-mut_C13-r6m2": "an edit defect (update_parameter ignoring the value 0): caught by C03, see C03-mut_C13-r6m2",
    "C10-mut_C10-r6m2": "the same edit defect seen from C10; caught by C03, see C03-mut_C10-r6m2",
    "C15-mut_C15-r6m2": "an edit-history defect (update_reaction without cache invalidation): caught by C03, see C03-mut_C15-r6m2",
    "C09-mut_C09-r6m2": "an edit-history defect (update_variable without cache invalidation; in scans only with a model evaluated before "
                        "the scan and initial-value columns only): caught by C03; C09 now hands half of its scans an evaluated model",
    "C18-mut_C18-r6m2": "a result-view defect (raw parameters put back only for multi-segment results): caught by C10, the owning check, "
                        "see C10-mut_C18-r6m2",
    "C06-mut_C06-r6m1": "missed at first (annotated assignments skipped like pass); PyFn.AnnAssign as a regular statement, AnnOn profiles",
    "C19-mut_C19-r6m1": "missed at first (cache directory created only when the Cache object is built); in-process histories keep ONE "
                        "Cache object across rmtree / re-pointing, wrong instance MkdirAtBuild refuted",
    "C19-mut_C19-r6m2": "missed at first (single-key fast path bypassing the cache); key sets of size one (and zero) as regular members, "
                        "wrong instance BypassOne refuted",
    "C09-mut_C09-r6m1": "missed at first (get_result ignoring an error recorded after an earlier segment succeeded); failure mode "
                        "`latestep` for protocol scans (the row fails in a later protocol step)",
    "C09-mut_C19-r4m2": "a cache defect (scan.protocol_time_course dropping cache=): results are right, only caching is lost; caught by "
                        "C19, the owning check, see C19-mut_C19-r4m2",
    "C04-mut7_C04-r7m1": "missed at first (update_variables restarting from the stale y0 of the PREVIOUS override: only a variable the "
                         "second override does not name shows it); the family got the bystander variable z (same equation, never named "
                         "in an override; Simulator.tla HistOf / Bystander), 214 value mismatches afterwards",
    "C09-mut7_C09-r7m1": "missed at first (row entries equal to the model's current evaluated value skipped: an assignment-defined "
                         "parameter whose row value equals what the assignment gives on the caller's model stays an assignment); "
                         "ParMap RowVal: row 2 carries exactly that value for the column q (with another x in the same row)",
    "C17-mut_C17-r5m2": "missed at first (sbml.read memoising the parsed document by path); SbmlSession Rewrite(d): the file of a "
                        "document replaced by its twin between two reads, path-memo instance refuted",
}
rows = []
for d in sorted(p for p in root.iterdir() if p.is_dir()):
    m = json.loads((d / "meta.json").read_text())
    summ = " ".join(m.get("check_summary", []))[:160].replace("|", "/")
    rows.append((d.name, m["property"], m.get("needs", m.get("idea", "")), m.get("demo_with_change_exit"),
                 m.get("tests_with_change", "n/a"), m.get("check_cmd", ""), "caught" if m.get("detected") else "MISSED",
                 STRENGTHENED.get(d.name, m.get("caught_by_after_strengthening", "")), summ))
out = ["# Seeded changes (each confirmed in a scratch worktree; never committed to /repo)", "",
       "| id | property | what it needs to manifest | demo exit with change | repo tests with change | check run | verdict | note | check summary |",
       "|---|---|---|---|---|---|---|---|---|"]
for r in rows:
    out.append("| " + " | ".join(str(x) for x in r) + " |")
caught = sum(1 for r in rows if r[6] == "caught")
missed = [r for r in rows if r[6] != "caught"]
owned = [r for r in missed if "caught by" in str(r[7])]
out += ["", f"{caught} of {len(rows)} trials end in exit 1 with VIOLATION lines. Of the other {len(missed)}, {len(owned)} are trials of a "
        "check against a change that another check owns and catches (see the note column); the rest are listed in DESIGN.md "
        "section 11.7 (not judged / not covered)."]
(root / "INDEX.md").write_text("\n".join(out) + "\n")
print("\n".join(out[-3:]))
