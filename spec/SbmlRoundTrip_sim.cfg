\* C08 gen: seeded random members of the full family, emitted with the specification's predictions
CONSTANTS
    MaxVars = 3
    MaxDer = 2
    MaxRxn = 2
    MaxIap = 1
    MaxIav = 1
    MaxComps = 4
    NumLits = {0, 1, 2, 3}
    Half = TRUE
    UnOn = {"neg", "abs"}
    BinOn = {"add", "sub", "mul", "div", "pow", "floordiv", "mod", "min", "max"}
    CmpOn = {"lt", "le", "gt", "ge", "eq", "ne"}
    Chains = TRUE
    BoolOn = {"and", "or", "not"}
    IteOn = TRUE
    FnOn = {"exp", "log", "sqrt", "sin", "cos", "tanh", "floor", "ceil", "log10"}
    CallOn = TRUE
    PiOn = TRUE
    MaxDepth = 3
    MaxToks = 9
    NFormals = 3
    Schemes = {"plain", "sympy", "formal", "escape", "escape1", "escape2", "keyword", "amount", "compart"}
    Pinned = FALSE
    EmitOn = TRUE
INIT Init
NEXT Next
INVARIANT Emit
INVARIANT AlwaysWellFormed
INVARIANT PredicatesClosed
INVARIANT RenameInvariant
CHECK_DEADLOCK FALSE
