"""C07 -- generated Python / TypeScript / Rust / Julia right-hand sides equal the model.

spec      : spec/ModelEval.tla + MxlModel.tla (surrogate-free family over translatable library functions; the
            specification's Rhs at three states/times, and with free parameter p := 5)
spec->code: generate_model_code_{py,ts,rs,jl} for every emitted model (shuffled declaration order, with and
            without free_parameters); the code is executed by CPython / node (type annotations stripped) /
            rustc (one batch compilation) / a Julia-subset evaluator; well-formedness, signature (one derivative
            per variable, declaration order) and values are compared with the specification
"""

from __future__ import annotations

import json
import random
import re
import subprocess

from ..core import Ctx, Report, pmap
from ..modelkit import build_model, close
from ..tlc import MachineryError, fn_to_dict
from . import codegen_common as cg

LANGS = ["py", "ts", "rs", "jl"]


# ---------------------------------------------------------------------------------------------
# worker: build the model, generate code for every language
# ---------------------------------------------------------------------------------------------
def _translates(m) -> bool:
    """Do all functions of the model translate (the antecedent of the property)?"""
    from mxlpy.meta.source_tools import fn_to_sympy
    from mxlpy.meta.sympy_tools import list_of_symbols
    from mxlpy.types import Derived

    try:
        for name, d in m.get_raw_derived().items():
            if fn_to_sympy(d.fn, origin=name, model_args=list_of_symbols(d.args)) is None:
                return False
        for name, r in m.get_raw_reactions().items():
            if fn_to_sympy(r.fn, origin=name, model_args=list_of_symbols(r.args)) is None:
                return False
            for co in r.stoichiometry.values():
                if isinstance(co, Derived) and fn_to_sympy(co.fn, origin=name, model_args=list_of_symbols(co.args)) is None:
                    return False
    except Exception:  # noqa: BLE001
        return False
    return True


def _points(scn: dict, free: bool) -> list[dict]:
    c = scn["c"]
    if free:
        pts = list(fn_to_dict(scn["pts_alt"]).values())
    else:
        pts = list(scn["pts"])
    return [{"t": float(p["t"]), "y": [float(fn_to_dict(p["y"])[v]) for v in c["vars"]],
             "rhs": [float(x) for x in p["rhs"]]} for p in pts]


def gen_codes(scn: dict) -> dict:
    from mxlpy import meta

    c = scn["c"]
    rnd = random.Random(f"{scn['seed']}/{scn['idx']}")
    m, order = build_model(c, rnd)
    sh = cg.shape(c, order)
    rec = {"idx": scn["idx"], "shape": sh, "order": order, "translates": _translates(m), "codes": {}}
    has_ia = bool(sh["ia_parameter"]) or any(v["k"] == "ia" for v in c["init"].values())
    variants = [("plain", None)]
    if not has_ia:
        variants.append(("free", ["p"]))
    for lang in LANGS:
        fn = getattr(meta, f"generate_model_code_{lang}")
        for vname, fp in variants:
            try:
                code = fn(m, free_parameters=fp)
                rec["codes"][f"{lang}/{vname}"] = {"code": code}
            except Exception as e:  # noqa: BLE001
                rec["codes"][f"{lang}/{vname}"] = {"raised": f"{type(e).__name__}: {str(e)[:150]}"}
    # the model must be untouched by code generation
    try:
        rec["parvals_after"] = {k: float(v) for k, v in m.get_parameter_values().items()}
    except Exception as e:  # noqa: BLE001
        rec["parvals_after"] = {"error": str(e)}
    return rec


# ---------------------------------------------------------------------------------------------
# executors
# ---------------------------------------------------------------------------------------------
def run_py(code: str, pts: list[dict], free: bool):
    ns: dict = {}
    try:
        compile(code, "<generated>", "exec")
    except SyntaxError as e:
        return {"malformed": f"SyntaxError: {e}"}
    try:
        exec(code, ns)  # noqa: S102
        f = ns["model"]
        out = []
        for p in pts:
            r = f(p["t"], list(p["y"]), 5.0) if free else f(p["t"], list(p["y"]))
            if isinstance(r, (int, float)):
                r = [r]
            out.append([float(x) for x in r])
        return {"values": out}
    except Exception as e:  # noqa: BLE001
        return {"error": f"{type(e).__name__}: {str(e)[:150]}"}


_JL_HEADER = re.compile(r"^function model\(time, variables((?:, \w+)*)\)$")
_JL_ASSIGN = re.compile(r"^    ([A-Za-z_]\w*) = (.+)$")
_JL_DESTR = re.compile(r"^    \(?([A-Za-z_]\w*(?:, [A-Za-z_]\w*)*),?\)? = variables$")
_JL_RET = re.compile(r"^    return \(?\[?(.*?)\]?\)?$")


def run_jl(code: str, pts: list[dict], free: bool, nvars: int):
    """A Julia-subset evaluator: header, destructuring of `variables`, assignments, return, end."""
    lines = code.split("\n")
    if not lines or not _JL_HEADER.match(lines[0]) or lines[-1] != "end":
        return {"malformed": "header/end"}
    prog = []
    names = []
    ret = None
    for ln in lines[1:-1]:
        if (m := _JL_DESTR.match(ln)):
            names = m.group(1).split(", ")
        elif (m := _JL_RET.match(ln)):
            ret = [s.strip() for s in m.group(1).split(",")] if m.group(1).strip() not in ("", "()") else []
        elif (m := _JL_ASSIGN.match(ln)) and "*variables" not in ln:
            prog.append((m.group(1), m.group(2)))
        else:
            return {"malformed": f"not Julia (subset): {ln.strip()[:60]}"}
    if ret is None:
        return {"malformed": "no return"}
    if nvars and len(names) != nvars:
        return {"malformed": "variables not destructured"}

    def py(expr: str) -> str | None:
        if "?" in expr or "ifelse" in expr:
            return None
        return expr.replace(".*", "*").replace("./", "/").replace(".^", "**").replace("^", "**") \
            .replace(".+", "+").replace(".-", "-")

    out = []
    for p in pts:
        env = {"time": p["t"], **dict(zip(names, p["y"]))}
        if free:
            env["p"] = 5.0
        try:
            for k, e in prog:
                pe = py(e)
                if pe is None:
                    return {"unsupported": e}
                env[k] = eval(pe, {"__builtins__": {}}, env)  # noqa: S307
            out.append([float(env[r]) for r in ret])
        except Exception as e:  # noqa: BLE001
            return {"error": f"{type(e).__name__}: {str(e)[:100]}"}
    return {"values": out}


def strip_ts(code: str) -> str:
    code = code.replace(": number[]", "").replace(": number", "")
    return code.rstrip().rstrip(";")


def run_ts_batch(ctx: Ctx, items: list[tuple[str, str, list[dict], bool]]) -> dict:
    """items: (id, code, pts, free). One node process, each model isolated by new Function + try/catch."""
    if not items:
        return {}
    payload = [{"id": i, "src": strip_ts(code), "pts": pts, "free": free} for i, code, pts, free in items]
    js = ctx.work / "batch.js"
    (ctx.work / "batch.json").write_text(json.dumps(payload))
    js.write_text("""
const fs = require('fs');
const items = JSON.parse(fs.readFileSync(process.argv[2]));
const out = {};
for (const it of items) {
  try {
    const f = new Function(it.src + "; return model;")();
    out[it.id] = {values: it.pts.map(p => { const r = it.free ? f(p.t, p.y, 5.0) : f(p.t, p.y); return Array.isArray(r) ? r : [r]; })};
  } catch (e) {
    out[it.id] = (e instanceof SyntaxError) ? {malformed: String(e)} : {error: String(e)};
  }
}
console.log(JSON.stringify(out));
""")
    p = subprocess.run(["node", str(js), str(ctx.work / "batch.json")], capture_output=True, text=True, timeout=600)
    if p.returncode != 0:
        raise MachineryError(f"node failed: {p.stderr[-500:]}")
    res = json.loads(p.stdout)
    for v in res.values():
        if "values" in v:
            v["values"] = [[float("nan") if x is None else float(x) for x in row] for row in v["values"]]
    return res


_RS_RET = re.compile(r"return \[(.*)\]\s*\}\s*$", re.S)


def run_rs_batch(ctx: Ctx, items: list[tuple[str, str, list[dict], bool, int]]) -> dict:
    """items: (id, code, pts, free, nvars). One rustc invocation; malformed members are located through the
    error line numbers and the rest is compiled again."""
    res: dict = {}
    todo = []
    for i, code, pts, free, nv in items:
        m = _RS_RET.search(code)
        nret = 0 if (m is None or not m.group(1).strip()) else len(m.group(1).split(","))
        if m is None:
            res[i] = {"malformed": "no return array"}
        elif nret != nv:
            res[i] = {"signature": f"{nret} values returned for {nv} variables"}
        else:
            todo.append((i, code, pts, free, nv))
    for _attempt in range(4):
        if not todo:
            break
        src = ["#![allow(warnings)]"]
        main = ["fn main() {"]
        for k, (i, code, pts, free, nv) in enumerate(todo):
            src.append(f"// MODEL {k}")
            src.append(code.replace("fn model(", f"fn model_{k}(", 1))
            for p in pts:
                ys = ", ".join(repr(float(v)) for v in p["y"])
                extra = ", 5.0" if free else ""
                main.append(f'    println!("{i}\\t{{:?}}", model_{k}({p["t"]!r}, &[{ys}]{extra}));')
        main.append("}")
        src.append("// MAIN")
        src.append("\n".join(main))
        rs = ctx.work / "batch.rs"
        text = "\n".join(src)
        rs.write_text(text)
        line_owner = {}
        owner = None
        for ln, line in enumerate(text.split("\n"), start=1):
            if line.startswith("// MODEL "):
                owner = todo[int(line.split()[2])][0]
            elif line == "// MAIN":
                owner = None
            line_owner[ln] = owner
        exe = ctx.work / "batch_rs"
        p = subprocess.run(["rustc", "-O", "-o", str(exe), str(rs)], capture_output=True, text=True, timeout=1200)
        if p.returncode == 0:
            r = subprocess.run([str(exe)], capture_output=True, text=True, timeout=600)
            if r.returncode != 0:
                raise MachineryError(f"generated rust binary failed: {r.stderr[-300:]}")
            for ln in r.stdout.splitlines():
                i, arr = ln.split("\t")
                vals = [float(x) for x in arr.strip("[]").split(",") if x.strip()]
                res.setdefault(i, {"values": []})["values"].append(vals)
            break
        bad = set()
        for mm in re.finditer(r"--> .*?batch\.rs:(\d+):", p.stderr):
            owner = line_owner.get(int(mm.group(1)))
            if owner is not None:
                bad.add(owner)
        if not bad:
            raise MachineryError(f"rustc failed outside generated functions: {p.stderr[-800:]}")
        for i in bad:
            err = re.search(r"error(\[E\d+\])?: [^\n]*", p.stderr)
            res[i] = {"malformed": f"rustc: {err.group(0) if err else 'error'}"}
        todo = [t for t in todo if t[0] not in bad]
    else:
        raise MachineryError("rustc batch did not converge")
    return res


# ---------------------------------------------------------------------------------------------
def judge(outcome: dict, pts: list[dict]) -> dict | None:
    if "values" not in outcome:
        return {"what": next(iter(outcome)), "detail": outcome}
    for p, row in zip(pts, outcome["values"]):
        if len(row) != len(p["rhs"]):
            return {"what": "signature", "expected": p["rhs"], "observed": row, "t": p["t"], "y": p["y"]}
        if any(not close(a, b) for a, b in zip(p["rhs"], row)):
            return {"what": "values", "expected": p["rhs"], "observed": row, "t": p["t"], "y": p["y"]}
    return None


_RS_INT = re.compile(r"(?<![\w.])\d+(?![\w.])")


def _rs_int_literal(code: str) -> bool:
    """Does the body of the generated Rust function use a bare integer literal (not an f64) in an expression?"""
    body = [ln for ln in code.split("\n")[1:] if "*variables" not in ln and not ln.strip().startswith("return")]
    text = re.sub(r"\.powi\(\d+\)", "", "\n".join(body))
    return bool(_RS_INT.search(text))


def classify(lang: str, sh: dict, bad: dict, code: str | None) -> str | None:
    what = bad.get("what")
    if lang == "jl" and what == "malformed" and code is not None and ("*variables" in code or "\n    k = " in code):
        return "jl/template"
    if lang == "rs" and what == "malformed" and code is not None and _rs_int_literal(code):
        return "rs/integer-literal"
    return None


def run(ctx: Ctx) -> int:
    rep = Report(ctx)
    rep.rule = ("one case = (model of the surrogate-free ModelEval family, target language, with/without free "
                "parameter) x 2-3 states; non-trivial = the model has at least one reaction and generation did "
                "not refuse; distinct by (content, language, variant)")
    rep.assumptions = ["node executes the TypeScript output after stripping ': number' annotations",
                       "Julia output is judged by a Julia-subset evaluator (no Julia runtime in the sandbox)",
                       "a model whose functions fn_to_sympy refuses is outside the antecedent (counted as refused)"]
    n = 12 if ctx.quick else 250
    parts = [
        dict(maxv=3, maxd=3, maxr=3, maxia=1, maxiv=1, maxc=4, fns=cg.TRANSLATABLE, fwd=True, num=n),
        dict(maxv=2, maxd=2, maxr=2, maxia=1, maxiv=0, maxc=5, fns=cg.TRANSLATABLE + ["loopinc"] + cg.OPTIONAL, fwd=False, num=n),
    ]
    scns = cg.generate(ctx, rep, parts)
    by_idx = {s["idx"]: s for s in scns}
    recs = pmap(gen_codes, scns, chunk=8)
    ts_items, rs_items = [], []
    cases = []  # (rec, lang, variant, pts, outcome or None)
    n_refused = 0
    for rec in recs:
        scn = by_idx[rec["idx"]]
        sh = rec["shape"]
        base_scn = {"c": scn["c"], "idx": scn["idx"], "seed": scn["seed"], "pts": scn["pts"], "pts_alt": scn["pts_alt"]}
        pv = rec["parvals_after"]
        exp_pv = {k: float(v) for k, v in fn_to_dict(scn["parvals"]).items()}
        if pv != exp_pv:
            rep.mismatch(base_scn, {"what": "model changed by code generation", "expected": exp_pv, "observed": pv},
                         None)
        for key, cd in rec["codes"].items():
            lang, variant = key.split("/")
            free = variant == "free"
            pts = _points(scn, free)
            cid = f"{rec['idx']}/{key}"
            rep.evaluations += 1
            if sh["untranslatable"]:
                if "raised" not in cd:
                    rep.mismatch({**base_scn, "lang": lang, "variant": variant},
                                 {"what": "untranslatable function did not make generation raise", "code": cd["code"]},
                                 None)
                else:
                    rep.replayed += 1
                continue
            if "raised" in cd:
                if rec["translates"]:
                    bad = {"what": "generation raised although every function translates", "exception": cd["raised"]}
                    rep.mismatch({**base_scn, "lang": lang, "variant": variant}, bad, classify(lang, sh, bad, None))
                else:
                    n_refused += 1
                continue
            if scn["c"]["rxn"]:
                rep.distinct.add(cid)
            if lang == "py":
                cases.append((rec, lang, variant, pts, cd["code"], run_py(cd["code"], pts, free)))
            elif lang == "jl":
                cases.append((rec, lang, variant, pts, cd["code"], run_jl(cd["code"], pts, free, sh["nvars"])))
            elif lang == "ts":
                ts_items.append((cid, cd["code"], pts, free))
                cases.append((rec, lang, variant, pts, cd["code"], cid))
            else:
                rs_items.append((cid, cd["code"], pts, free, sh["nvars"]))
                cases.append((rec, lang, variant, pts, cd["code"], cid))
    ts_res = run_ts_batch(ctx, ts_items)
    rs_res = run_rs_batch(ctx, rs_items)
    n_ok = 0
    for rec, lang, variant, pts, code, outcome in cases:
        if isinstance(outcome, str):
            outcome = (ts_res if lang == "ts" else rs_res).get(outcome, {"error": "no result from batch"})
        if "unsupported" in outcome:
            continue
        scn = by_idx[rec["idx"]]
        rep.replayed += 1
        bad = judge(outcome, pts)
        if bad is None:
            n_ok += 1
            continue
        rep.mismatch({"c": scn["c"], "idx": scn["idx"], "seed": scn["seed"], "pts": scn["pts"], "pts_alt": scn["pts_alt"],
                      "lang": lang, "variant": variant, "order": rec["order"]},
                     {**bad, "code": code, "shape": rec["shape"]}, classify(lang, rec["shape"], bad, code))
    rep.notes["generation_refused_untranslatable_by_fn_to_sympy"] = n_refused
    rep.notes["cases_conforming"] = n_ok
    if n_ok < 50 and not rep.violations:
        raise MachineryError(f"vacuity: only {n_ok} generated functions conformed")
    for s in scns[:2]:
        rep.sample({"content": s["c"], "point": s["pts"][1]})
    return rep.finish()


def replay(ctx: Ctx, doc: dict) -> int:
    from ..modelkit import norm_content

    scn = doc["scenario"]
    scn["c"] = norm_content(scn["c"])
    rec = gen_codes(scn)
    lang, variant = scn.get("lang", "py"), scn.get("variant", "plain")
    cd = rec["codes"][f"{lang}/{variant}"]
    print(json.dumps({"shape": rec["shape"], "generated": cd}, indent=1))
    if "code" not in cd:
        return 0
    free = variant == "free"
    pts = _points(scn, free)
    if lang == "py":
        out = run_py(cd["code"], pts, free)
    elif lang == "jl":
        out = run_jl(cd["code"], pts, free, rec["shape"]["nvars"])
    elif lang == "ts":
        out = run_ts_batch(ctx, [("x", cd["code"], pts, free)])["x"]
    else:
        out = run_rs_batch(ctx, [("x", cd["code"], pts, free, rec["shape"]["nvars"])])["x"]
    bad = judge(out, pts)
    print(json.dumps({"outcome": out, "disagreement": bad}, indent=1))
    if bad:
        print("VIOLATION property=C07 replay=(given)")
        return 1
    return 0
