--------------------------- MODULE TranslateOracle ---------------------------
(***************************************************************************)
(* code -> spec for C06.  Real Python functions (the shipped rate laws of   *)
(* mxlpy.fns, the functions of the repository's fn_to_sympy tests) were     *)
(* encoded into PyFn ASTs by mbt/pyenc.py.  Each case of CASE_FILE carries  *)
(*   id, params, body, ft (the part of the global name space it uses),      *)
(*   pts  (sequence of points; a point is the sequence of argument values), *)
(*   obs  (optional, per point: the value of MxlPy's translated expression, *)
(*         evaluated exactly, or Skip when that was not possible).          *)
(* TLC evaluates Run at every point and prints, per case, the outcomes and  *)
(* the verdict of the comparison with obs: a point is rejected iff the      *)
(* function is defined there (st = "ret"), an observation exists, and it    *)
(* differs from the specification's exact value.                            *)
(***************************************************************************)
EXTENDS PyFn, TLC, Json, IOUtils

Cases == JsonDeserialize(IOEnv.CASE_FILE)

VARIABLE tid
Init == tid \in 1..Len(Cases)
Next == UNCHANGED tid

Outcomes(c) == [j \in DOMAIN c.pts |-> Run(c.body, ArgEnv(c.params, c.pts[j]), c.ft)]

Rejected(c, outs) ==
    IF "obs" \notin DOMAIN c THEN {}
    ELSE {j \in DOMAIN c.pts : outs[j].st = "ret" /\ c.obs[j] # Skip /\ c.obs[j] # outs[j].v}

Judge ==
    LET c == Cases[tid]
        outs == Outcomes(c)
        rej == Rejected(c, outs)
    IN PrintT("@J@" \o ToJson([id |-> c.id, out |-> outs, rejected |-> rej,
                                 verdict |-> IF rej = {} THEN "accept" ELSE "reject"]) \o "@E@")
=============================================================================
