\* every template, label counts 1..2, ALL maps (max(S,P) <= 4), short maps rejected, rotating initial request
CONSTANTS
    Tpls = {"uni", "bi", "split", "influx", "efflux", "rev", "homo", "dimer", "cof", "byst", "der", "chain"}
    Ords = {"std"}
    MaxNL = 2
    MaxL = 4
    ShortMaps = TRUE
    InitAll = FALSE
    ArgMode = "occurrence"
    EmitOn = TRUE
INIT Init
NEXT Next
INVARIANT ThCount
INVARIANT ThUnit
INVARIANT ThAtom
INVARIANT ThSum
INVARIANT ThInit
INVARIANT ThReject
INVARIANT ThDen
INVARIANT Emit
CHECK_DEADLOCK FALSE
