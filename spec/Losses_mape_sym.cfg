\* C20: mean_absolute_percentage depends on the order of its arguments: counterexample expected
CONSTANTS
    LossNames = {"mean_absolute_percentage"}
    Orients = {"pd"}
    N = 2
    Grid = "pos"
    EmitOn = FALSE
INIT Init
NEXT Next
INVARIANT Symmetric
CHECK_DEADLOCK FALSE
