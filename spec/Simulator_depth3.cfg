\* C04: every call history of depth 3 over the menu; properties checked at every reachable state
CONSTANTS
    Depth = 3
    EmitOn = TRUE
    Variant = "contract"
    MenuName = "c04"
INIT Init
NEXT Next
INVARIANT AxisIncreasing
INVARIANT RefusalIff
INVARIANT PointsOnce
INVARIANT SegChain
INVARIANT NowIsLast
INVARIANT Bystander
INVARIANT StepIntervals
INVARIANT ProtocolIsComposition
INVARIANT FailedFrozen
INVARIANT Emit
CHECK_DEADLOCK FALSE
