\* all histories of depth 2 over the core alphabet from three seed contents
CONSTANTS
    Depth = 2
    Seeds = {"empty", "vp", "vpr"}
    OpSet = "core"
    EmitOn = TRUE
INIT Init
NEXT Next
INVARIANT StoichClosed
INVARIANT OneNameSpace
INVARIANT Emit
CHECK_DEADLOCK FALSE
