------------------------------ MODULE McaProc ------------------------------
(***************************************************************************)
(* C18, the PROCEDURE of response_coefficients as a state machine: one     *)
(* task per scanned parameter; each task                                   *)
(*   Start (read the old value; ApplyY0 when initial values are supplied), *)
(*   PerturbUp, SteadyUp, PerturbDown, SteadyDown, Restore, [Normalise],   *)
(*   [RestoreY0], Finish (difference quotient, optional normalisation).    *)
(* Mode "seq": the tasks run one after the other ON THE CALLER'S MODEL;    *)
(* mode "par": every task works on its own copy of the entry model and the *)
(* tasks interleave arbitrarily.  The network is the mass-action chain     *)
(* 0 -> x1 -> x2 -> 0 with its closed-form steady state (McaCore), the     *)
(* relative displacement is 1/10 so that TLC computes every quotient.      *)
(*                                                                         *)
(* Properties (the last sentence of C18):                                  *)
(*   ParsRestored, InitsRestored  at exit the caller's parameter values    *)
(*                                and initial values are those at entry;   *)
(*   ResultsRight                 every task returns the quotient of the   *)
(*                                ENTRY model (so sequential = parallel);  *)
(*   ParNeverTouches              in parallel mode the caller's model is   *)
(*                                never written.                           *)
(* RestoreY0 = FALSE is the shape of the pinned mca.py (supplied initial   *)
(* values are applied with update_variables and never taken back):         *)
(* TLC must reject it in sequential mode.  RestorePars = FALSE (forgetting *)
(* the parameter reset) must be rejected too, and it also corrupts the     *)
(* results of later tasks.                                                 *)
(***************************************************************************)
EXTENDS McaCore

CONSTANTS Mode,          \* "seq" | "par"
          RestorePars,   \* BOOLEAN
          RestoreY0,     \* BOOLEAN
          Cyclic,        \* TRUE: the closed loop x1 <-> x2 (steady state depends on the starting state), else the open chain
          EarlyRestoreY0 \* TRUE: the supplied initial values are taken back BEFORE the reference steady state (wrong)
VARIABLES caller, copies, pc, loc, res, wy, nz
pvars == <<caller, copies, pc, loc, res, wy, nz>>

kin == Sym("kin")
k1 == Sym("k1")
k2 == Sym("k2")
Chain == [vars |-> <<"x1", "x2">>, pars |-> <<"kin", "k1", "k2">>,
          rxns |-> <<[name |-> "v0", rate |-> kin, st |-> ("x1" :> 1)],
                     [name |-> "v1", rate |-> Mul(k1, Sym("x1")), st |-> ("x1" :> (0 - 1)) @@ ("x2" :> 1)],
                     [name |-> "v2", rate |-> Mul(k2, Sym("x2")), st |-> ("x2" :> (0 - 1))]>>,
          ss |-> ("x1" :> Div(kin, k1)) @@ ("x2" :> Div(kin, k2))]
\* closed loop: the total T of the initial values the search starts from is conserved
Cycle == [vars |-> <<"x1", "x2">>, pars |-> <<"k1", "k2">>,
          rxns |-> <<[name |-> "v1", rate |-> Mul(k1, Sym("x1")), st |-> ("x1" :> (0 - 1)) @@ ("x2" :> 1)],
                     [name |-> "v2", rate |-> Mul(k2, Sym("x2")), st |-> ("x1" :> 1) @@ ("x2" :> (0 - 1))]>>,
          ss |-> ("x1" :> Div(Mul(Sym("T"), k2), Add(k1, k2))) @@ ("x2" :> Div(Mul(Sym("T"), k1), Add(k1, k2)))]
TheNet == IF Cyclic THEN Cycle ELSE Chain
Tasks == Range(TheNet.pars)
TaskOrder == TheNet.pars
H == R(1, 10)

Entry == [pars  |-> IF Cyclic THEN ("k1" :> RInt(1)) @@ ("k2" :> RInt(3))
                    ELSE ("kin" :> RInt(2)) @@ ("k1" :> RInt(1)) @@ ("k2" :> RInt(4)),
          inits |-> ("x1" :> RInt(1)) @@ ("x2" :> RInt(1))]
Y0 == ("x1" :> RInt(3)) @@ ("x2" :> RInt(5))
\* the steady state the search finds from model m: a function of its parameters and of the total of its initial values
PT(m) == m.pars @@ ("T" :> RAdd(m.inits["x1"], m.inits["x2"]))
SS(m) == [x \in Range(TheNet.vars) |-> SSValue(TheNet, x, PT(m))]

NoLoc == [old |-> RZero, up |-> <<>>, dn |-> <<>>, nrm |-> <<>>, saved |-> <<>>]

Init == /\ caller = Entry
        /\ copies = [t \in Tasks |-> Entry]            \* what a worker process receives: a copy of the entry model
        /\ pc = [t \in Tasks |-> "start"]
        /\ loc = [t \in Tasks |-> NoLoc]
        /\ res = [t \in Tasks |-> <<>>]
        /\ wy \in BOOLEAN                              \* initial values supplied (variables=...)
        /\ nz \in BOOLEAN                              \* normalised coefficients

M(t) == IF Mode = "par" THEN copies[t] ELSE caller
\* the model a task writes to
Write(t, m) == IF Mode = "par" THEN copies' = [copies EXCEPT ![t] = m] /\ UNCHANGED caller
               ELSE caller' = m /\ UNCHANGED copies

Pos(t) == CHOOSE i \in 1..Len(TaskOrder) : TaskOrder[i] = t
\* sequential mode: a task may move only when every earlier task is done
MayMove(t) == Mode = "par" \/ \A u \in Tasks : Pos(u) < Pos(t) => pc[u] = "done"

Goto(t, l) == pc' = [pc EXCEPT ![t] = l]
Keep(t) == UNCHANGED <<loc, res, wy, nz>>

Start(t) == /\ pc[t] = "start" /\ MayMove(t)
            /\ loc' = [loc EXCEPT ![t].old = M(t).pars[t], ![t].saved = M(t).inits]
            /\ (IF wy THEN Write(t, [M(t) EXCEPT !.inits = Y0]) ELSE UNCHANGED <<caller, copies>>)     \* ApplyY0
            /\ Goto(t, "up") /\ UNCHANGED <<res, wy, nz>>
PerturbUp(t) == /\ pc[t] = "up" /\ MayMove(t)
                /\ Write(t, [M(t) EXCEPT !.pars[t] = RMul(loc[t].old, RAdd(ROne, H))])
                /\ Goto(t, "ssup") /\ Keep(t)
SteadyUp(t) == /\ pc[t] = "ssup" /\ MayMove(t)
               /\ loc' = [loc EXCEPT ![t].up = SS(M(t))]
               /\ Goto(t, "down") /\ UNCHANGED <<caller, copies, res, wy, nz>>
PerturbDown(t) == /\ pc[t] = "down" /\ MayMove(t)
                  /\ Write(t, [M(t) EXCEPT !.pars[t] = RMul(loc[t].old, RSub(ROne, H))])
                  /\ Goto(t, "ssdown") /\ Keep(t)
SteadyDown(t) == /\ pc[t] = "ssdown" /\ MayMove(t)
                 /\ loc' = [loc EXCEPT ![t].dn = SS(M(t))]
                 /\ Goto(t, "restore") /\ UNCHANGED <<caller, copies, res, wy, nz>>
Restore(t) == /\ pc[t] = "restore" /\ MayMove(t)
              /\ (IF RestorePars THEN Write(t, [M(t) EXCEPT !.pars[t] = loc[t].old]) ELSE UNCHANGED <<caller, copies>>)
              /\ Goto(t, IF EarlyRestoreY0 THEN "resty0" ELSE "norm") /\ Keep(t)
Normalise(t) == /\ pc[t] = "norm" /\ MayMove(t)
                /\ loc' = [loc EXCEPT ![t].nrm = IF nz THEN SS(M(t)) ELSE <<>>]
                /\ Goto(t, IF EarlyRestoreY0 THEN "finish" ELSE "resty0") /\ UNCHANGED <<caller, copies, res, wy, nz>>
RestoreInit(t) == /\ pc[t] = "resty0" /\ MayMove(t)
                  /\ (IF wy /\ RestoreY0 THEN Write(t, [M(t) EXCEPT !.inits = loc[t].saved]) ELSE UNCHANGED <<caller, copies>>)
                  /\ Goto(t, IF EarlyRestoreY0 THEN "norm" ELSE "finish") /\ Keep(t)
Coef(t) == [x \in Range(TheNet.vars) |->
              LET q == RDiv(RSub(loc[t].up[x], loc[t].dn[x]), RMul(RMul(RInt(2), H), loc[t].old))
              IN  IF nz THEN RDiv(RMul(q, loc[t].old), loc[t].nrm[x]) ELSE q]
Finish(t) == /\ pc[t] = "finish" /\ MayMove(t)
             /\ res' = [res EXCEPT ![t] = Coef(t)]
             /\ Goto(t, "done") /\ UNCHANGED <<caller, copies, loc, wy, nz>>

Next == \E t \in Tasks : Start(t) \/ PerturbUp(t) \/ SteadyUp(t) \/ PerturbDown(t) \/ SteadyDown(t)
                         \/ Restore(t) \/ Normalise(t) \/ RestoreInit(t) \/ Finish(t)

AllDone == \A t \in Tasks : pc[t] = "done"
\* the quotient of the ENTRY model: what every task must return whatever the mode and the schedule
\* (the analysis is AT the supplied state when one is supplied: difference and scaling both start from it)
AtModel == [Entry EXCEPT !.inits = IF wy THEN Y0 ELSE Entry.inits]
Exact(t) == [x \in Range(TheNet.vars) |->
               LET q == Quot(TheNet.ss[x], t, PT(AtModel), H)
               IN  IF nz THEN RDiv(RMul(q, Entry.pars[t]), SSValue(TheNet, x, PT(AtModel))) ELSE q]

ParsRestored    == AllDone => caller.pars = Entry.pars
InitsRestored   == AllDone => caller.inits = Entry.inits
ResultsRight    == \A t \in Tasks : pc[t] = "done" => res[t] = Exact(t)
ParNeverTouches == Mode = "par" => caller = Entry
\* vacuity guard: the interesting end states are reached
Reached == ~(AllDone /\ wy /\ nz)
=============================================================================
