\* C19: implementation-shaped wrong instance "leftover temporary files are promoted to their final names when the next run starts": must VIOLATE NoRaise (a crash strictly inside a write leaves a strict prefix)
CONSTANTS
    NKeys = 2
    W = 1
    L = 2
    Design = "temp"
    Policy = "trust"
    RenameAt = "closed"
    BypassOne = FALSE
    MkdirAtBuild = FALSE
    Recover = TRUE
    Forwards = TRUE
    MaxDrop = 0
    LossyNames = FALSE
    Memo = FALSE
    MaxClear = 0
    MaxExtra = 0
    MaxCrash = 1
    Fifo = TRUE
    EmitOn = FALSE
INIT Init
NEXT Next
INVARIANT TypeOK
INVARIANT NoRaise
CHECK_DEADLOCK TRUE
