"""Rendering specification content (MxlModel.tla records, as JSON) into real mxlpy models, and
projecting real models / answers back onto the specification's observables."""

from __future__ import annotations

import random

from . import fnlib
from .tlc import fn_to_dict

DATA_VALUES = {13: [6.0, 7.0], 17: [8.0, 9.0], 5: [2.0, 3.0]}


def norm_content(c: dict) -> dict:
    """TLC prints empty functions as []: normalise every container to a dict."""
    c = dict(c)
    for k in ("init", "pars", "der", "rxn", "sur", "ro", "data"):
        c[k] = fn_to_dict(c.get(k, {}))
    for r in c["rxn"].values():
        r["st"] = fn_to_dict(r["st"])
    for s in c["sur"].values():
        s["st"] = {o: fn_to_dict(v) for o, v in fn_to_dict(s["st"]).items()}
    return c


FN_OVERRIDE: dict = {}   # FnLib name -> python function, set by a replayer that wants another rendering


def _fn(name: str):
    return FN_OVERRIDE.get(name) or fnlib.FNS[name]


def coef(co: dict, named_ok: bool = True):
    from mxlpy.types import Derived

    if co["k"] == "num":
        return float(co["v"])
    if named_ok and co["fn"] == "id" and len(co["args"]) == 1:
        return co["args"][0]  # the "named coefficient" form of the public API
    return Derived(fn=_fn(co["fn"]), args=list(co["args"]))


def coef_sur(co: dict):
    from mxlpy.types import Derived

    if co["k"] == "num":
        return float(co["v"])
    return Derived(fn=_fn(co["fn"]), args=list(co["args"]))


NUMTYPES = ("float", "int", "np.int64", "np.float32", "np.float64")


def typed(x, rnd):
    """A number as callers write it: the same value as a Python float / int or a numpy scalar (a seeded rendering
    choice; integral values only for the integer types, float32 only where it is exact)."""
    import numpy as np

    x = float(x)
    if rnd is None:
        return x
    t = rnd.choice(NUMTYPES)
    if t == "int" and x == int(x):
        return int(x)
    if t == "np.int64" and x == int(x):
        return np.int64(int(x))
    if t == "np.float32" and float(np.float32(x)) == x:
        return np.float32(x)
    if t == "np.float64":
        return np.float64(x)
    return x


def value(v: dict, rnd=None):
    from mxlpy.types import InitialAssignment

    if v["k"] == "num":
        return typed(v["v"], rnd)
    return InitialAssignment(fn=_fn(v["fn"]), args=list(v["args"]))


def surrogate(s: dict, qss: bool = False):
    """The two-output surrogate of the specification, rendered as the mock surrogate or (same meaning) as the
    shipped quasi-steady-state surrogate."""
    from mxlpy.surrogates.abstract import MockSurrogate

    st = {o: {v: coef_sur(co) for v, co in row.items()} for o, row in s["st"].items()}
    if qss:
        from mxlpy.surrogates import qss as qss_mod

        return qss_mod.Surrogate(model=fnlib.pair(*s["fns"]), args=list(s["args"]), outputs=list(s["outs"]),
                                 stoichiometries=st)
    return MockSurrogate(
        fn=fnlib.pair(*s["fns"]),
        args=list(s["args"]),
        outputs=list(s["outs"]),
        stoichiometries={o: {v: coef_sur(co) for v, co in st.items()} for o, st in s["st"].items()},
    )


def data_series(total):
    import pandas as pd

    vals = DATA_VALUES.get(int(total)) or [float(total) - 1.0, 1.0]
    return pd.Series(vals)


def build_model(c: dict, rnd: random.Random | None = None):
    """Build the real model for content ``c``; non-variable components are declared in a shuffled order."""
    from mxlpy import Model

    m = Model()
    steps = []
    for v in c["vars"]:
        steps.append(("var", v))
    others = [("par", p) for p in c["pars"]] + [("der", d) for d in c["der"]] + [("rxn", r) for r in c["rxn"]] \
        + [("sur", s) for s in c["sur"]] + [("ro", r) for r in c["ro"]] + [("data", d) for d in c["data"]]
    if rnd is not None:
        rnd.shuffle(others)
        # variables keep their relative order (it is part of the content) but are interleaved with the rest
        merged = []
        vs = list(steps)
        while vs or others:
            if vs and (not others or rnd.random() < 0.5):
                merged.append(vs.pop(0))
            else:
                merged.append(others.pop(0))
        steps = merged
    else:
        steps += others
    for kind, n in steps:
        if kind == "var":
            m.add_variable(n, value(c["init"][n], rnd))
        elif kind == "par":
            m.add_parameter(n, value(c["pars"][n], rnd))
        elif kind == "der":
            m.add_derived(n, _fn(c["der"][n]["fn"]), args=list(c["der"][n]["args"]))
        elif kind == "rxn":
            r = c["rxn"][n]
            m.add_reaction(n, _fn(r["fn"]), args=list(r["args"]),
                           stoichiometry={v: coef(co) for v, co in r["st"].items()})
        elif kind == "sur":
            m.add_surrogate(n, surrogate(c["sur"][n], qss=rnd is not None and rnd.random() < 0.5))
        elif kind == "ro":
            m.add_readout(n, _fn(c["ro"][n]["fn"]), args=list(c["ro"][n]["args"]))
        elif kind == "data":
            m.add_data(n, data_series(c["data"][n]))
    return m, [f"{k}:{n}" for k, n in steps]


def close(a, b, tol=1e-9) -> bool:
    try:
        a = float(a)
        b = float(b)
    except (TypeError, ValueError):
        return False
    if a != a or b != b:
        return False
    return abs(a - b) <= tol * max(1.0, abs(a), abs(b))


def cmp_table(expected: dict, observed: dict, what: str, exact_names: bool = True) -> dict | None:
    """Compare name -> number tables."""
    for n, v in expected.items():
        if n not in observed:
            return {"what": what, "name": n, "expected": v, "observed": "absent"}
        if not close(v, observed[n]):
            return {"what": what, "name": n, "expected": v, "observed": float(observed[n])}
    if exact_names:
        extra = sorted(set(observed) - set(expected))
        if extra:
            return {"what": what, "unexpected_names": extra}
    return None


def cmp_vector(expected: list, observed, what: str) -> dict | None:
    obs = list(observed)
    if len(obs) != len(expected):
        return {"what": what, "expected": expected, "observed": [float(o) for o in obs]}
    for j, (e, o) in enumerate(zip(expected, obs)):
        if not close(e, o):
            return {"what": what, "position": j, "expected": expected, "observed": [float(o) for o in obs]}
    return None
