\* C18 procedure machine: forgetting the parameter reset, sequential: ParsRestored must fail
CONSTANTS
    Mode = "seq"
    RestorePars = FALSE
    RestoreY0 = TRUE
    Cyclic = FALSE
    EarlyRestoreY0 = FALSE
INIT Init
NEXT Next
INVARIANT ParsRestored
CHECK_DEADLOCK FALSE
