\* C04 seeded deep behaviours (-simulate): call histories of length 8 over the menu
CONSTANTS
    Depth = 8
    EmitOn = TRUE
    Variant = "contract"
    MenuName = "c04"
INIT Init
NEXT Next
INVARIANT AxisIncreasing
INVARIANT RefusalIff
INVARIANT PointsOnce
INVARIANT SegChain
INVARIANT NowIsLast
INVARIANT Bystander
INVARIANT StepIntervals
INVARIANT ProtocolIsComposition
INVARIANT FailedFrozen
INVARIANT Emit
CHECK_DEADLOCK FALSE
