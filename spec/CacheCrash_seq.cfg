\* C19: sequential mode, 3 keys, up to two crashes, every crash point; emits the crash histories
CONSTANTS
    NKeys = 3
    W = 1
    L = 2
    Design = "temp"
    Policy = "trust"
    RenameAt = "closed"
    BypassOne = FALSE
    MkdirAtBuild = FALSE
    Recover = FALSE
    Forwards = TRUE
    MaxDrop = 0
    LossyNames = FALSE
    Memo = FALSE
    MaxClear = 0
    MaxExtra = 0
    MaxCrash = 2
    Fifo = TRUE
    EmitOn = TRUE
INIT Init
NEXT Next
INVARIANT TypeOK
INVARIANT NoRaise
INVARIANT RightResults
INVARIANT Injective
INVARIANT NoRecompute
INVARIANT AllStored
INVARIANT ComputesExactlyMissing
INVARIANT FinalWhole
INVARIANT OneOwner
INVARIANT Emit
CHECK_DEADLOCK TRUE
