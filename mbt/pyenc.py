"""Python source -> spec AST (code -> spec direction of the expression core; used by C06's oracle mode).

``encode_function(fn)`` parses the source of a real Python function with the ``ast`` module and returns the JSON
form of a PyFn function (see mbt/render.py / spec/PyFn.tla) together with the part of its global name space it
uses::

    {"name": str, "params": [...], "body": [...],
     "ft": {name: {"k": "fn", "params": [...], "body": [...]} | {"k": "const", "v": {"n":..,"d":..}}}}

It accepts EXACTLY the subset the specification gives a meaning to and raises ``OutsideSubset(reason)`` for
anything else (keyword arguments, attribute/subscript targets, comprehensions, strings, unknown calls ...):
  statements   docstring / pass (dropped), import / from-import inside the body (resolved, dropped),
               x = e, x: T = e, x: T, x1 = x2 = e, x op= e, return e, if/elif/else, while, for x in range(<int literal>)
  expressions  int / float literals (decimal value as exact rational), names (locals, module-level numbers,
               imported numbers), + - * / ** // %, unary - +, not, and/or, comparisons incl. chains, conditional
               expression, abs/min/max, calls of plain Python functions reachable through the module's globals or
               through modules (``f(x)``, ``mod.f(x)``, ``pkg.mod.f(x)``) with positional and keyword arguments
               (``f(x, b=y)``; the callee may have numeric defaults), ``math.<fn>(x)`` as opaque ``fn`` node.
Names are resolved like Python does: function locals, function-level imports (with their aliases), the cells of
enclosing functions (``fn.__closure__``), module globals; a name bound differently in two scopes gets two keys in ``ft``.
The CPython cross-check of the encoder (run the original function, compare with the spec's Run) is done by the caller.
"""

from __future__ import annotations

import ast
import inspect
import math
import textwrap
import types
from fractions import Fraction

from .render import to_json_value

LIM = 1 << 20


class OutsideSubset(Exception):
    pass


BINOPS = {ast.Add: "add", ast.Sub: "sub", ast.Mult: "mul", ast.Div: "div", ast.Pow: "pow",
          ast.FloorDiv: "floordiv", ast.Mod: "mod"}
CMPOPS = {ast.Lt: "lt", ast.LtE: "le", ast.Gt: "gt", ast.GtE: "ge", ast.Eq: "eq", ast.NotEq: "ne"}


def _num(value) -> dict:
    if isinstance(value, bool):
        return {"k": "bool", "val": value}
    if isinstance(value, int):
        fr = Fraction(value)
    elif isinstance(value, float):
        if math.isnan(value) or math.isinf(value):
            raise OutsideSubset("non-finite number")
        fr = Fraction(repr(value))
    else:
        raise OutsideSubset(f"literal of type {type(value).__name__}")
    if abs(fr.numerator) >= LIM or fr.denominator >= LIM:
        raise OutsideSubset(f"number {value!r} exceeds the magnitude guard")
    return {"k": "num", "v": to_json_value(fr)}


def _assigned(stmts) -> set:
    out = set()
    for node in ast.walk(ast.Module(body=list(stmts), type_ignores=[])):
        if isinstance(node, ast.Name) and isinstance(node.ctx, ast.Store):
            out.add(node.id)
    return out


class _Enc:
    def __init__(self, fn, ft: dict, stack: tuple = ()):
        self.fn = fn
        self.ft = ft
        self.stack = stack
        src = textwrap.dedent(inspect.getsource(fn))
        tree = ast.parse(src)
        fd = tree.body[0]
        if not isinstance(fd, ast.FunctionDef):
            raise OutsideSubset("not a plain function definition")
        if fd.decorator_list or hasattr(fn, "__wrapped__") or fd.name != getattr(fn, "__name__", fd.name):
            # the meaning of a decorated function is what calling the OBJECT does, not what its source says
            raise OutsideSubset("decorated / wrapped function")
        a = fd.args
        if a.vararg or a.kwarg or a.kwonlyargs or a.posonlyargs or a.kw_defaults:
            raise OutsideSubset("only plain positional-or-keyword parameters")
        self.fd = fd
        self.params = [x.arg for x in a.args]
        # default values are the objects Python evaluated at definition time
        self.defs = [_num(v)["v"] if not isinstance(v, bool) else None for v in (fn.__defaults__ or ())]
        if None in self.defs:
            raise OutsideSubset("boolean default")
        self.locals = set(self.params) | _assigned(fd.body)
        self.globals = dict(getattr(fn, "__globals__", {}))
        if fn.__closure__:
            for nme, cell in zip(fn.__code__.co_freevars, fn.__closure__, strict=True):
                self.globals[nme] = cell.cell_contents
        self.imported: dict = {}

    # -- names -------------------------------------------------------------------------------------
    def lookup(self, name: str):
        if name in self.imported:
            return self.imported[name]
        if name in self.globals:
            return self.globals[name]
        import builtins

        if hasattr(builtins, name):
            return getattr(builtins, name)
        raise OutsideSubset(f"unknown name {name}")

    def resolve(self, node):
        """Python object an expression like ``a.b.c`` denotes (modules / module attributes only)."""
        if isinstance(node, ast.Name):
            if node.id in self.locals:
                raise OutsideSubset("attribute of a local")
            return self.lookup(node.id)
        if isinstance(node, ast.Attribute):
            base = self.resolve(node.value)
            if not isinstance(base, types.ModuleType):
                raise OutsideSubset("attribute of a non-module object")
            try:
                return getattr(base, node.attr)
            except AttributeError as e:
                raise OutsideSubset(str(e)) from e
        raise OutsideSubset("unsupported callee / attribute base")

    def const(self, qual: str, obj) -> dict:
        if isinstance(obj, bool) or not isinstance(obj, (int, float)):
            raise OutsideSubset(f"{qual} is not a number")
        # the same name may denote different bindings in different scopes (a function-level import or a closure
        # cell shadowing a module global; the globals of another module): every binding gets its own key
        v = _num(obj)["v"]
        key, n = qual, 1
        while key in self.ft and self.ft[key] != {"k": "const", "v": v}:
            n += 1
            key = f"{qual}#{n}"
        self.ft[key] = {"k": "const", "v": v}
        return {"k": "const", "name": key}

    # -- expressions -----------------------------------------------------------------------------------
    def expr(self, e) -> dict:
        if isinstance(e, ast.Constant):
            return _num(e.value)
        if isinstance(e, ast.Name):
            if e.id in self.locals:
                return {"k": "var", "name": e.id}
            return self.const(e.id, self.lookup(e.id))
        if isinstance(e, ast.Attribute):
            return self.const(ast.unparse(e), self.resolve(e))
        if isinstance(e, ast.UnaryOp):
            a = self.expr(e.operand)
            if isinstance(e.op, ast.USub):
                return {"k": "neg", "a": a}
            if isinstance(e.op, ast.UAdd):
                return a
            if isinstance(e.op, ast.Not):
                return {"k": "not", "a": a}
            raise OutsideSubset(f"unary {type(e.op).__name__}")
        if isinstance(e, ast.BinOp):
            if type(e.op) not in BINOPS:
                raise OutsideSubset(f"operator {type(e.op).__name__}")
            return {"k": BINOPS[type(e.op)], "a": self.expr(e.left), "b": self.expr(e.right)}
        if isinstance(e, ast.BoolOp):
            return {"k": "and" if isinstance(e.op, ast.And) else "or", "args": [self.expr(x) for x in e.values]}
        if isinstance(e, ast.Compare):
            if any(type(o) not in CMPOPS for o in e.ops):
                raise OutsideSubset("comparison operator")
            return {"k": "cmp", "ops": [CMPOPS[type(o)] for o in e.ops],
                    "args": [self.expr(x) for x in [e.left, *e.comparators]]}
        if isinstance(e, ast.IfExp):
            return {"k": "ite", "c": self.expr(e.test), "a": self.expr(e.body), "b": self.expr(e.orelse)}
        if isinstance(e, ast.Call):
            if any(k.arg is None for k in e.keywords) or any(isinstance(x, ast.Starred) for x in e.args):
                raise OutsideSubset("** / starred arguments")
            args = [self.expr(x) for x in e.args] + [self.expr(k.value) for k in e.keywords]
            kw = [""] * len(e.args) + [k.arg for k in e.keywords]
            target = self.resolve(e.func)
            if e.keywords and not isinstance(target, types.FunctionType):
                raise OutsideSubset("keyword arguments of a library function")
            if target is abs and len(args) == 1:
                return {"k": "abs", "a": args[0]}
            if target in (min, max) and len(args) >= 2:
                return {"k": target.__name__, "args": args}
            if getattr(target, "__module__", None) == "math" and callable(target):
                return {"k": "fn", "name": target.__name__, "args": args}
            if isinstance(target, types.FunctionType):
                name, n = target.__name__, 1
                if target in self.stack or target is self.fn:
                    raise OutsideSubset("recursive function")
                while name in self.ft and self.ft[name].get("_obj") is not target:
                    n += 1          # another callable of that name (other module, closure, local import): own key
                    name = f"{target.__name__}#{n}"
                if name not in self.ft:
                    sub = _Enc(target, self.ft, (*self.stack, self.fn))
                    self.ft[name] = {"k": "fn", "params": sub.params, "body": sub.body(), "defs": sub.defs, "_obj": target}
                return {"k": "call", "name": name, "args": args, "kw": kw}
            raise OutsideSubset(f"call of {getattr(target, '__name__', target)!r}")
        raise OutsideSubset(f"expression {type(e).__name__}")

    # -- statements ------------------------------------------------------------------------------------
    def block(self, stmts) -> list:
        out = []
        for s in stmts:
            if isinstance(s, ast.Pass):
                continue
            if isinstance(s, ast.Expr) and isinstance(s.value, ast.Constant) and isinstance(s.value.value, str):
                continue
            if isinstance(s, ast.Import):
                import importlib

                for al in s.names:
                    top = al.name.split(".")[0]
                    importlib.import_module(al.name)
                    self.imported[al.asname or top] = importlib.import_module(al.name if al.asname else top)
                    self.locals.discard(al.asname or top)
                continue
            if isinstance(s, ast.ImportFrom):
                import importlib

                if s.level:
                    raise OutsideSubset("relative import")
                m = importlib.import_module(s.module)
                for al in s.names:
                    try:
                        self.imported[al.asname or al.name] = getattr(m, al.name)
                    except AttributeError:
                        self.imported[al.asname or al.name] = importlib.import_module(f"{s.module}.{al.name}")
                    self.locals.discard(al.asname or al.name)
                continue
            if isinstance(s, ast.Assign):
                if not all(isinstance(t, ast.Name) for t in s.targets):
                    raise OutsideSubset("assignment target")
                if len(s.targets) == 1:
                    out.append({"k": "assign", "name": s.targets[0].id, "e": self.expr(s.value)})
                else:
                    out.append({"k": "chain", "names": [t.id for t in s.targets], "e": self.expr(s.value)})
            elif isinstance(s, ast.AnnAssign):
                if not isinstance(s.target, ast.Name) or not s.simple:
                    raise OutsideSubset("annotated assignment target")
                if s.value is not None:     # without a value nothing is bound (the name is still a local)
                    out.append({"k": "assign", "name": s.target.id, "e": self.expr(s.value), "ann": True})
            elif isinstance(s, ast.AugAssign):
                if not isinstance(s.target, ast.Name) or type(s.op) not in BINOPS:
                    raise OutsideSubset("augmented assignment")
                out.append({"k": "aug", "name": s.target.id, "op": BINOPS[type(s.op)], "e": self.expr(s.value)})
            elif isinstance(s, ast.Return):
                if s.value is None:
                    raise OutsideSubset("bare return")
                out.append({"k": "ret", "e": self.expr(s.value)})
            elif isinstance(s, ast.If):
                out.append({"k": "if", "e": self.expr(s.test), "body": self.block(s.body), "orelse": self.block(s.orelse)})
            elif isinstance(s, ast.While):
                if s.orelse:
                    raise OutsideSubset("while/else")
                out.append({"k": "while", "e": self.expr(s.test), "body": self.block(s.body)})
            elif isinstance(s, ast.For):
                it = s.iter
                ok = (isinstance(s.target, ast.Name) and not s.orelse and isinstance(it, ast.Call)
                      and isinstance(it.func, ast.Name) and it.func.id == "range" and len(it.args) == 1
                      and isinstance(it.args[0], ast.Constant) and isinstance(it.args[0].value, int)
                      and it.args[0].value >= 0)
                if not ok:
                    raise OutsideSubset("for loop other than range(<literal>)")
                out.append({"k": "for", "name": s.target.id, "e": _num(it.args[0].value), "body": self.block(s.body)})
            else:
                raise OutsideSubset(f"statement {type(s).__name__}")
        return out

    def body(self) -> list:
        # imports inside the body bind names that are not numeric locals
        return self.block(self.fd.body)


def encode_function(fn) -> dict:
    ft: dict = {}
    enc = _Enc(fn, ft)
    body = enc.body()
    clash = (set(enc.locals) & {k for k, v in ft.items() if v["k"] == "const"})
    if clash:
        raise OutsideSubset(f"name used both as local and as constant: {sorted(clash)}")
    clean = {k: {kk: vv for kk, vv in v.items() if kk != "_obj"} for k, v in ft.items()}
    return {"name": fn.__name__, "params": enc.params, "body": body, "defs": enc.defs, "ft": clean}
