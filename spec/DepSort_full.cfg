\* graphs over {a,b,s}, |req| <= 3, all 6 orders
CONSTANTS
    Comps = {"a", "b", "s"}
    MaxReq = 3
    Shortcut = "raise"
    EmitOn = TRUE
INIT Init
NEXT Next
INVARIANT OkIsRight
INVARIANT MissingIsRight
INVARIANT CircularIsRight
INVARIANT Bounded
INVARIANT Emit
CHECK_DEADLOCK FALSE
