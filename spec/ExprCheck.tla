------------------------------ MODULE ExprCheck ------------------------------
(***************************************************************************)
(* Unit checks of the shared expression core (Rat, Expr, PyFn, Piecewise): *)
(* TLC evaluates the ASSUMEs when the module is loaded (cfg: ExprCheck.cfg, *)
(* no behaviour).  Run by mbt/props/c06.py before anything else.           *)
(***************************************************************************)
EXTENDS Piecewise, TLC

VARIABLE u
Init == u = 0
Next == UNCHANGED u

a == Var("a")  b == Var("b")  y == Var("y")
E(av, bv) == [x \in {"a", "b"} |-> IF x = "a" THEN av ELSE bv]
I(i) == RFromInt(i)
FT == [sub2 |-> FnDef(<<"a", "b">>, <<Ret(Bin("sub", a, b))>>),
       half |-> FnDef(<<"b">>, <<If(Cmp2("eq", b, Num(0)), <<Ret(Num(0))>>, <<>>), Assign("y", Bin("div", Num(1), b)), Ret(y)>>),
       K |-> ConstDef(I(4)), H |-> ConstDef(R(1, 2))]
V(e, av, bv) == Eval(e, E(I(av), I(bv)), FT)

ASSUME R(2, 0 - 4) = [n |-> 0 - 1, d |-> 2]
ASSUME RAdd(R(1, 2), R(1, 3)) = R(5, 6) /\ RSub(R(1, 2), R(1, 2)) = Zero /\ RMul(R(2, 3), R(3, 2)) = One
ASSUME RDiv(One, Zero) = Undef /\ RDiv(I(3), I(0 - 6)) = R(0 - 1, 2)
ASSUME RPow(I(2), I(10)) = I(1024) /\ RPow(I(2), I(0 - 2)) = R(1, 4) /\ RPow(Zero, I(0 - 1)) = Undef
ASSUME RPow(Zero, Zero) = One /\ RPow(I(2), R(1, 2)) = Skip /\ RPow(I(1000), I(5)) = Skip
ASSUME RFloorDiv(I(0 - 7), I(2)) = I(0 - 4) /\ RMod(I(0 - 7), I(2)) = I(1) /\ RMod(I(7), I(0 - 2)) = I(0 - 1)
ASSUME RMod(R(7, 2), I(2)) = R(3, 2) /\ RFloorDiv(I(1), Zero) = Undef /\ RMod(I(1), Zero) = Undef
ASSUME RLt(R(1, 3), R(1, 2)) /\ ~RLt(R(1, 2), R(1, 2)) /\ RLe(R(0 - 1, 2), Zero)
ASSUME RMin(I(1), I(2)) = I(1) /\ RMax(I(1), R(5, 2)) = R(5, 2) /\ RAbs(I(0 - 3)) = I(3)
ASSUME RMul(I(1000000), I(1000000)) = Skip /\ RAdd(Undef, Skip) = Undef /\ RAdd(Skip, Undef) = Skip

ASSUME V(Bin("add", a, Bin("mul", b, Num(2))), 1, 2) = I(5)
ASSUME V(Bin("div", a, b), 1, 0) = Undef
ASSUME V(Cmp(<<"lt", "le">>, <<Num(0), a, b>>), 1, 1) = VBool(TRUE)
ASSUME V(Cmp(<<"lt", "le">>, <<Num(0), a, Bin("div", Num(1), b)>>), 0, 0) = VBool(FALSE)   \* short circuit
ASSUME V(Cmp(<<"lt", "le">>, <<Num(0), a, Bin("div", Num(1), b)>>), 1, 0) = Undef
ASSUME V(And(<<Cmp2("ne", b, Num(0)), Cmp2("gt", Bin("div", a, b), Num(1))>>), 1, 0) = VBool(FALSE)
ASSUME V(Or(<<Cmp2("eq", b, Num(0)), Cmp2("gt", Bin("div", a, b), Num(1))>>), 4, 2) = VBool(TRUE)
ASSUME V(Ite(Cmp2("eq", b, Num(0)), a, Bin("div", a, b)), 3, 0) = I(3)
ASSUME V(Bin("add", a, Cmp2("eq", b, Num(0))), 3, 0) = Skip
ASSUME V(Call("sub2", <<b, a>>), 1, 2) = I(1) /\ V(Call("sub2", <<b>>), 1, 2) = Undef /\ V(Call("nope", <<b>>), 1, 2) = Undef
ASSUME V(Call("half", <<a>>), 2, 0) = R(1, 2) /\ V(Call("half", <<b>>), 2, 0) = Zero
ASSUME V(Bin("mul", Const("K"), Const("H")), 0, 0) = I(2) /\ V(Const("Q"), 0, 0) = Undef /\ V(y, 0, 0) = Undef
ASSUME V(Min(<<a, b, Num(0)>>), 1, 2) = Zero /\ V(Max(<<a, b>>), 1, 2) = I(2) /\ V(Fn("exp", <<a>>), 1, 2) = Skip
ASSUME FreeVars(Bin("add", a, Call("sub2", <<b, y>>))) = {"a", "b", "y"}
ASSUME Rename(Bin("sub", a, b), [a |-> "b", b |-> "a"]) = Bin("sub", b, a)
ASSUME Depth(Bin("add", a, Bin("mul", b, Num(2)))) = 2 /\ CmpNums(Cmp2("lt", a, Num(3))) = {Num(3)}

\* statements: reassignment in one branch, fall through, code after the if, unbound local, no return
B1 == <<Assign("y", a), If(Cmp2("gt", a, Num(0)), <<Assign("y", Bin("mul", Num(2), a))>>, <<>>), Ret(y)>>
B2 == <<If(Cmp2("gt", a, Num(0)), <<Assign("y", a)>>, <<>>), Ret(y)>>
B3 == <<If(Cmp2("eq", a, Num(1)), <<Ret(b)>>, <<>>)>>
B4 == <<If(Cmp2("gt", a, b), <<Assign("y", a)>>, <<Assign("y", b)>>), Assign("z", Bin("add", y, Num(1))), Ret(Bin("mul", Var("z"), y))>>
B5 == <<Ret(Call("sub2", <<b, a>>))>>
ASSUME Run(B1, E(I(2), I(0)), FT) = [st |-> "ret", v |-> I(4)] /\ Run(B1, E(I(0 - 1), I(0)), FT) = [st |-> "ret", v |-> I(0 - 1)]
ASSUME Run(B2, E(I(0), I(0)), FT).st = "err" /\ Run(B3, E(I(0), I(5)), FT).st = "none" /\ Run(B3, E(I(1), I(5)), FT).v = I(5)
ASSUME Run(B4, E(I(1), I(2)), FT).v = I(6) /\ Run(<<Ret(Fn("exp", <<a>>))>>, E(I(1), I(2)), FT).st = "skip"
ASSUME Assigned(B4) = {"y", "z"} /\ StmtCount(B4) = 5 /\ HasReturn(B4) /\ ~HasReturn(<<Assign("y", a)>>)
ASSUME WellFormed(<<"a", "b">>, B5, FT) /\ ~WellFormed(<<"a", "K">>, <<Ret(Const("K"))>>, FT)

\* just outside the translator's subset: augmented assignment, while, for
B6 == <<Assign("y", Num(0)), While(Cmp2("lt", y, a), <<Aug("add", "y", Num(1))>>), Ret(Bin("add", y, b))>>
B7 == <<Assign("y", b), For("i", 2, <<Aug("mul", "y", Bin("add", a, Var("i")))>>), Ret(y)>>
B8 == <<Aug("add", "y", Num(1)), Ret(y)>>
B9 == <<Assign("y", Num(0)), While(Cmp2("lt", y, Num(1)), <<Assign("y", Bin("sub", y, Num(1)))>>), Ret(y)>>
ASSUME Run(B6, E(I(2), I(5)), FT).v = I(7) /\ Run(B6, E(I(0 - 1), I(5)), FT).v = I(5)
ASSUME Run(B7, E(I(2), I(5)), FT).v = I(30) /\ Run(B8, E(I(2), I(5)), FT).st = "err" /\ Run(B9, E(I(2), I(5)), FT).st = "skip"
ASSUME HasLoop(B6) /\ ~HasLoop(B7) /\ Assigned(B7) = {"y", "i"} /\ StmtCount(B6) = 4
ASSUME \A pt \in {E(I(i), I(j)) : i, j \in {0 - 1, 0, 1, 2}} : PWAgrees(<<"a", "b">>, B7, FT, pt, RefMode)

\* chained assignment: both targets bound, the expression evaluated once
B10 == <<Chain(<<"y", "b">>, Bin("mul", a, Num(2))), Ret(Bin("add", y, Bin("mul", Num(3), b)))>>
ASSUME Run(B10, E(I(1), I(5)), FT).v = I(8) /\ Assigned(B10) = {"y", "b"}
ASSUME \A pt \in {E(I(i), I(j)) : i, j \in {0 - 1, 0, 1, 2}} : PWAgrees(<<"a", "b">>, B10, FT, pt, RefMode)

\* call arguments bound by keyword / defaults
FTD == FT @@ [dflt |-> FnDefD(<<"a", "b">>, <<I(3)>>, <<Ret(Bin("sub", Bin("mul", a, Num(2)), b))>>)]
VD(e, av, bv) == Eval(e, E(I(av), I(bv)), FTD)
ASSUME VD(CallKw("sub2", <<b, a>>, <<"b", "a">>), 5, 1) = I(4)          \* sub2(b=b, a=a) = a - b
ASSUME VD(CallKw("sub2", <<b, a>>, <<"a", "b">>), 5, 1) = I(0 - 4)      \* sub2(a=b, b=a)
ASSUME VD(CallKw("sub2", <<b, a>>, <<"", "b">>), 5, 1) = I(0 - 4)       \* sub2(b, b=a)
ASSUME VD(CallKw("sub2", <<b, a>>, <<"", "a">>), 5, 1) = Undef          \* a bound twice
ASSUME VD(CallKw("sub2", <<b, a>>, <<"a", "zz">>), 5, 1) = Undef /\ VD(CallKw("sub2", <<b>>, <<"a">>), 5, 1) = Undef
ASSUME VD(Call("dflt", <<a>>), 5, 1) = I(7) /\ VD(CallKw("dflt", <<a, b>>, <<"", "b">>), 5, 1) = I(9)
ASSUME VD(CallKw("dflt", <<b>>, <<"a">>), 5, 1) = I(0 - 1) /\ VD(Call("dflt", <<>>), 5, 1) = Undef
BK == <<Ret(Bin("add", CallKw("sub2", <<b, a>>, <<"a", "b">>), CallKw("dflt", <<b>>, <<"a">>)))>>
ASSUME \A pt \in {E(I(i), I(j)) : i, j \in {0 - 1, 0, 1, 2}} : PWAgrees(<<"a", "b">>, BK, FTD, pt, RefMode)
ASSUME \E pt \in {E(I(i), I(j)) : i, j \in {0 - 1, 0, 1, 2}} : ~PWAgrees(<<"a", "b">>, BK, FTD, pt, [sim |-> FALSE, eq |-> TRUE])

\* name resolution: a function-level import / closure cell shadows the module binding, for the function itself only
Alt == [K |-> ConstDef(I(6)), sub2 |-> FnDef(<<"a", "b">>, <<Ret(Bin("sub", Bin("mul", b, Num(2)), a))>>)]
BS == <<Ret(Bin("add", Bin("mul", a, Const("K")), Bin("add", Call("sub2", <<a, b>>), Call("kmulx", <<b>>))))>>
FTS == FT @@ [kmulx |-> FnDef(<<"a">>, <<Ret(Bin("mul", a, Const("K")))>>),
              kcell |-> FnDefS(<<"a">>, <<>>, <<Ret(Bin("mul", a, Const("K")))>>, <<[K |-> ConstDef(I(10))]>>)]
ASSUME RunIn(BS, E(I(1), I(2)), <<>>, FTS).v = I(4 + (0 - 1) + 8)
ASSUME RunIn(BS, E(I(1), I(2)), <<Alt>>, FTS).v = I(6 + 3 + 8)            \* callee kmulx still sees the module's K
ASSUME RunIn(BS, E(I(1), I(2)), <<[K |-> ConstDef(I(7))], Alt>>, FTS).v = I(7 + 3 + 8)   \* innermost scope wins
ASSUME RunIn(<<Ret(Call("kcell", <<b>>))>>, E(I(1), I(2)), <<Alt>>, FTS).v = I(20)      \* the callee's own cell
ASSUME \A pt \in {E(I(i), I(j)) : i, j \in {0 - 1, 0, 1, 2}} :
          PWAgreesT(TranslateBody(<<"a", "b">>, BS, View(<<Alt>>, FTS), RefMode), BS, View(<<Alt>>, FTS), pt)

\* reference translation, and the two wrong instances
Pts == {E(I(i), I(j)) : i, j \in {0 - 1, 0, 1, 2}}
Bs == {B1, B2, B3, B4, B5}
ASSUME \A bd \in Bs, pt \in Pts : PWAgrees(<<"a", "b">>, bd, FT, pt, RefMode)
ASSUME \E pt \in Pts : ~PWAgrees(<<"a", "b">>, B5, FT, pt, [sim |-> FALSE, eq |-> TRUE])
ASSUME \E pt \in Pts : ~PWAgrees(<<"a", "b">>, B3, FT, pt, [sim |-> TRUE, eq |-> FALSE])
ASSUME Len(ToPW(<<"a", "b">>, B4, RefMode)) = 2 /\ Len(ToPW(<<"a", "b">>, B3, RefMode)) = 1
=============================================================================
