----------------------------- MODULE LinearLabel -----------------------------
(***************************************************************************)
(* C16 -- positional enrichment at a metabolic steady state.               *)
(*                                                                         *)
(* From the isotopomer model of LabelExpand (base content b, all reactions *)
(* mapped, mass action, isotopomer state y whose totals are the steady     *)
(* pools) this module DERIVES the exact rational rate of change of the     *)
(* enrichment of every label position,                                     *)
(*    IsoEnrichRate[(C,i)] = (1/C_tot) * SUM_{isotopomers of C with bit i} *)
(*                                              d(isotopomer)/dt,          *)
(* and DEFINES the linear label model in the documented reading of a map   *)
(* (product position i is fed by substrate position map[i]; sources beyond *)
(* the substrates' atoms are the external pool EXT):                       *)
(*    LinRhs[(C,i)] = (1/pool[C]) * ( SUM_{r, product position (C,i)}      *)
(*                         flux[r] * enrichment(source)                    *)
(*                      - SUM_{r, substrate position (C,i)} flux[r]*e[C,i])*)
(* Theorems (LinearLabelMC): LinRhs at the enrichments of y with EXT = 1   *)
(* equals IsoEnrichRate for every map and every distribution; uniform      *)
(* enrichment equal to the external pool is stationary; zero stays zero.   *)
(*                                                                         *)
(* mode = "pinned" is the shape of the pinned implementation               *)
(* (_map_substrates_to_labelmap: res[map[j]] = substrate j, i.e. the map   *)
(* read substrate -> product, later entries overwrite, holes become EXT,   *)
(* one transfer reaction per slot); TLC shows it differs from the          *)
(* isotopomer model exactly when some map is not an involution.            *)
(***************************************************************************)
EXTENDS LabelExpand

Q == INSTANCE Rat

PosName(c, i) == c \o "__" \o ToString(i - 1)         \* variables of the linear model (0-based, as the API names them)
PosIndex(b) == UNION {{[n |-> PosName(c, i), c |-> c, i |-> i] : i \in 1..b.nl[c]} : c \in Labelled(b)}
PosNames(b) == {rec.n : rec \in PosIndex(b)}
PosRec(b, n) == CHOOSE rec \in PosIndex(b) : rec.n = n

(***************************************************************************)
(* From the isotopomer model                                               *)
(***************************************************************************)
\* amount (or rate) carried by the isotopomers of c that are labelled at position i
\* (idx = IsoIndex(b): TLC does not memoise operator applications, so the index is built once per use)
LabAmount(idx, f, c, i) ==
    FoldSet(LAMBDA rec, acc : acc + (IF rec.c = c /\ rec.bits[i] = 1 THEN f[rec.n] ELSE 0), 0, idx)

Enrich(b, y) ==
    LET idx == IsoIndex(b)
        tot == Totals(b, y)
        pidx == PosIndex(b)
    IN [n \in {r.n : r \in pidx} |-> LET p == CHOOSE r \in pidx : r.n = n IN Q!R(LabAmount(idx, y, p.c, p.i), tot[p.c])]

IsSteadyAt(b, y) == \A c \in CpdSet(b) : BRhs(b, Totals(b, y))[c] = 0

\* (d = LRhs(b, y, "occurrence"), passed in where it is already known)
IsoEnrichRateD(b, y, d) ==
    LET idx == IsoIndex(b)
        tot == Totals(b, y)
        pidx == PosIndex(b)
    IN [n \in {r.n : r \in pidx} |-> LET p == CHOOSE r \in pidx : r.n = n IN Q!R(LabAmount(idx, d, p.c, p.i), tot[p.c])]

IsoEnrichRate(b, y) == IsoEnrichRateD(b, y, LRhs(b, y, "occurrence"))

(***************************************************************************)
(* The linear model                                                        *)
(***************************************************************************)
RECURSIVE PosSeq(_, _, _)
PosSeq(b, cs, j) ==
    IF j > Len(cs) THEN <<>>
    ELSE [i \in 1..b.nl[cs[j]] |-> PosName(cs[j], i)] \o PosSeq(b, cs, j + 1)
Pad(seq, L) == seq \o [i \in 1..(L - Len(seq)) |-> "EXT"]

\* the maps the linear mapper accepts: exactly max(S, P) entries, each naming a source position
LinProper(b, r) == Len(r.map) = NSrc(b, r) /\ \A i \in DOMAIN r.map : r.map[i] \in 0..(NSrc(b, r) - 1)

\* a term moves label: dst gains flux * enrichment(src) / pool(dst) when inn, src loses flux * e(src) / pool(src) when out
Terms(b, r, mode) ==
    LET L    == NSrc(b, r)
        subs == Pad(PosSeq(b, r.subs, 1), L)
        prds == Pad(PosSeq(b, r.prods, 1), L)
    IN IF mode = "doc"
       THEN [i \in 1..PLab(b, r) |-> [src |-> subs[r.map[i] + 1], dst |-> prds[i], inn |-> TRUE, out |-> FALSE]]
            \o [q \in 1..SLab(b, r) |-> [src |-> subs[q], dst |-> "EXT", inn |-> FALSE, out |-> TRUE]]
       ELSE \* pinned: res[map[j]] = subs[j], the last writer wins, unwritten slots stay EXT; slot i feeds prds[i]
            LET res == [i \in 1..L |->
                          IF \E j \in 1..L : r.map[j] = i - 1
                          THEN subs[Max({j \in 1..L : r.map[j] = i - 1})] ELSE "EXT"]
            IN [i \in 1..L |-> [src |-> res[i], dst |-> prds[i],
                                inn |-> res[i] # prds[i] /\ prds[i] # "EXT",
                                out |-> res[i] # prds[i] /\ res[i] # "EXT"]]

Val(e, x, n) == IF n = "EXT" THEN x ELSE e[n]

\* pool : [compound -> Int], flux : [reaction index -> Int], e : [PosNames -> rational], x : rational (EXT)
LinRhs(b, pool, flux, e, x, mode) ==
    LET terms == [j \in DOMAIN b.rxns |-> Terms(b, b.rxns[j], mode)]
        \* net label gained by position n through reaction j, per unit of the reaction's flux
        Through(j, n) ==
            FoldFunction(LAMBDA t, acc :
                            LET gain == IF t.inn /\ t.dst = n THEN Val(e, x, t.src) ELSE Q!Zero
                                loss == IF t.out /\ t.src = n THEN e[n] ELSE Q!Zero
                            IN IF gain = Q!Zero /\ loss = Q!Zero THEN acc ELSE Q!RAdd(acc, Q!RSub(gain, loss)),
                         Q!Zero, terms[j])
        pidx == PosIndex(b)
    IN [n \in {r.n : r \in pidx} |->
          Q!RDiv(FoldFunction(LAMBDA j, acc : Q!RAdd(acc, Q!RMul(Q!RFromInt(flux[j]), Through(j, n))),
                              Q!Zero, [j \in DOMAIN b.rxns |-> j]),
                 Q!RFromInt(pool[(CHOOSE r \in pidx : r.n = n).c]))]

(***************************************************************************)
(* The external enrichment is a PARAMETER of the built model: "for any     *)
(* external enrichment" covers an enrichment given to build_model and one  *)
(* set afterwards with update_parameter("EXT", x) alike.  The built model  *)
(* is therefore a state [ext]; its right-hand side after any history       *)
(* build(x0), set(x1), ..., set(xn) is LinRhs at EXT = xn, whatever x0 was *)
(* (in particular x0 = 0: a model built for an unlabelled pool must still  *)
(* contain every label influx).                                            *)
(***************************************************************************)
BuiltModel(x) == [ext |-> x]
SetExt(m, x)  == [m EXCEPT !.ext = x]
\* h : a non-empty sequence of external enrichments (h[1] given to build_model, the others set one after the other)
RECURSIVE ApplyHistory(_, _, _)
ApplyHistory(m, h, i) == IF i > Len(h) THEN m ELSE ApplyHistory(SetExt(m, h[i]), h, i + 1)
AfterHistory(h) == ApplyHistory(BuiltModel(h[1]), h, 2)
ModelRhs(b, pool, flux, m, e, mode) == LinRhs(b, pool, flux, e, m.ext, mode)

\* a map that is its own inverse (a permutation m of the source positions with m[m[i]] = i)
Involutive(b, r) ==
    /\ LinProper(b, r)
    /\ \A i \in DOMAIN r.map : r.map[r.map[i] + 1] = i - 1
=============================================================================
