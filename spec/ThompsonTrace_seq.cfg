CONSTANTS
    Params <- Params2
    NBins = 3
    GoodOf <- GoodA
    FailsOf <- FailsNone
    N = 6
    W = 1
    Mode = "code"
    EmitOn = FALSE
INIT TInit
NEXT TNext
INVARIANT Verdict
INVARIANT Conservation
INVARIANT AcceptsAgree
INVARIANT OnlyGoodSucceed
CHECK_DEADLOCK FALSE
