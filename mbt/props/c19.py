"""C19 -- result caching is transparent and survives interruption.

spec      : spec/CacheCrash.tla (files, per-worker program counters, Lookup/Load/Compute/Open/Write/Close/
            Rename/Return, Crash enabled in every state, reruns), spec/CacheTrace.tla (code -> spec)
TLC (mc)  : every crash point x 1-3 workers x 2-4 keys x up to 2 crashes: after any prefix ending in Crash the
            rerun ends with the right result for every key (NoRaise + termination), a run after a completed run
            computes nothing (NoRecompute), for the temp-then-rename design (and for two other repairs); the
            implementation-shaped instance of the pinned commit (write into the final path, existence =
            available) must VIOLATE NoRaise
spec->code: every emitted crash history is realised by fault injection against the real
            parallelise(..., cache=Cache(dir)) and scan.steady_state(..., cache=...) in a child process group:
            every worker is stopped at its specification-chosen stage (callback level, open, byte offset of the
            write, before the rename, after the save), the group is SIGKILLed, reruns happen in fresh
            processes; each rerun must return what the uncached run returns, the run after a completed run
            must not compute; sequential mode and pebble pools of 1-3 workers
code->spec: the Cache callbacks (public fields) and the mapped function log name/load/compute/save events per
            key and process; every recorded multi-run trace (crashes and directory observations included) is
            validated by TLC against CacheTrace in batches
"""

from __future__ import annotations

import json
import random
import shutil
from pathlib import Path

from .. import crashkit as ck
from ..core import Ctx, Report
from ..tlc import MachineryError

CB_EVENTS = {"name", "load_begin", "load_end", "compute", "save_begin", "save_end"}
FLAVOURS = ["pmap", "scan"]
# key menus per flavour (crashkit.PMAP_KEYS / scan_table); "equal-str" is only run uninterrupted (known finding)
MENUS = {"pmap": ["plain", "signed-tuples", "punct", "mixed", "slash"], "scan": ["range", "signed-grid", "signed-column"]}


# ---------------------------------------------------------------------------------------------------
# one scenario against the real code
# ---------------------------------------------------------------------------------------------------
def _ev(e, k=0, w=1, ok=True, same=True, files=()):
    return {"e": e, "k": int(k), "w": int(w), "ok": bool(ok), "same": bool(same), "files": list(files)}


def _callback_events(log: list[dict]) -> tuple[list[dict], int]:
    """Callback events of one run for TLC.  The trace is key-centric: every key gets its own virtual worker (w = k),
    so only the per-key protocol is prescribed, not which process does what when (a design may look all keys up
    first, in the caller's process); a repeated name_fn call for a key within a run is not an event of its own."""
    pids: dict[int, int] = {}
    out, named, comp = [], set(), set()
    for r in log:
        if r["e"] not in CB_EVENTS:
            continue
        pids.setdefault(r["pid"], len(pids) + 1)
        if r["e"] == "name":
            if r["k"] in named:
                continue
            named.add(r["k"])
        if r["e"] == "compute":
            if r["k"] in comp:       # (an entry point that computes a row twice would show up as wrong counts elsewhere)
                continue
            comp.add(r["k"])
        if r["e"] == "save_begin" and r["k"] not in comp:
            comp.add(r["k"])         # entry points without worker=: the save witnesses the computation
            out.append(_ev("compute", r["k"], r["k"]))
        out.append(_ev(r["e"], r["k"], r["k"], ok=r.get("ok", True)))
    return out, len(pids)


def _close_deep(a, b) -> bool:
    if isinstance(a, dict) and isinstance(b, dict):
        return a.keys() == b.keys() and all(_close_deep(a[k], b[k]) for k in a)
    if isinstance(a, list) and isinstance(b, list):
        return len(a) == len(b) and all(_close_deep(x, y) for x, y in zip(a, b))
    if isinstance(a, float) and isinstance(b, (int, float)) or isinstance(b, float) and isinstance(a, (int, float)):
        if a != a or b != b:
            return a != a and b != b
        return abs(a - b) <= 1e-9 * max(1.0, abs(a), abs(b))
    return a == b


def same_result(flavour: str, a: dict, b: dict) -> bool:
    """pmap: exact; library containers (projected to index / columns / numbers): equal up to 1e-9."""
    return a == b if flavour == "pmap" else _close_deep(a, b)


def run_scenario(sc: dict) -> dict:
    """Realise one crash history; returns status, the recorded trace and the first failure (if any)."""
    base = Path(sc["dir"])
    if base.exists():
        shutil.rmtree(base, ignore_errors=True)
    (base / "cache").mkdir(parents=True)
    nk, flavour, w = sc["nk"], sc["flavour"], sc["w"]
    spec_w = nk                     # trace validation: one virtual worker per key
    events: list[dict] = []
    state = {"run": 0, "verify": False}
    stats = {"cuts": 0, "fallback": 0, "runs": 0, "other_files": 0, "partial_final": 0}

    def launch(plan: dict | None):
        state["run"] += 1
        stats["runs"] += 1
        n = state["run"]
        ctl = base / f"ctl{n}"
        ctl.mkdir()
        job = {"flavour": flavour, "keys": sc.get("keys"), "nk": nk, "w": w, "cache": True, "cache_dir": str(base / "cache"),
               "ctl": str(ctl), "log": str(base / f"log{n}.jsonl"), "result": str(base / f"res{n}.json"),
               "kill": sc.get("kill", "group"), **(plan or {})}
        info = ck.spawn(job, timeout=45)
        log = ck.read_log(job["log"])
        return info, log, ctl

    def fail(what: str, **kw):
        bad_loads = [e["k"] for e in events if e["e"] == "load_end" and not e["ok"]]
        if bad_loads:
            kw["failing_key"] = bad_loads[-1]
        return {"status": "violation", "detail": {"what": what, "run": state["run"], **kw}, "trace": events,
                "stats": stats, "spec_w": spec_w}

    def complete_run():
        """A run that is not interrupted: must return the uncached results; in verify state it must not compute."""
        info, log, _ = launch(None)
        evs, npids = _callback_events(log)
        events.extend(evs)
        res = info.get("result")
        ok = bool(res and res.get("ok")) and not info["timed_out"]
        same = ok and same_result(flavour, res["out"], sc["reference"])
        events.append(_ev("end", ok=ok, same=same))
        stats["max_pids"] = max(stats.get("max_pids", 0), npids)
        if not ok:
            return fail("run raised", exc=(res or {}).get("exc"), msg=(res or {}).get("msg"),
                        timed_out=info["timed_out"], exit=info.get("exit"), signal=info.get("signal"))
        if not same:
            return fail("results differ from the uncached run", got=res["out"], expected=sc["reference"])
        computed = sorted(e["k"] for e in evs if e["e"] == "compute")
        if state["verify"] and computed:
            return fail("a run that follows a completed run recomputed", computed=computed)
        return None

    for snap, offs, pts in zip(sc["crashes"], sc["offsets"], sc.get("points") or [None] * len(sc["crashes"])):
        if snap["verify"] and not state["verify"]:
            bad = complete_run()
            if bad:
                return bad
            events.append(_ev("newrun"))
            state["verify"] = True
        plan = ck.plan_from_snapshot(snap, nk, sc["l"], {int(k): v for k, v in offs.items()},
                                     {int(k): v for k, v in (pts or {}).items()})
        info, log, ctl = launch(plan)
        evs, npids = _callback_events(log)
        events.extend(evs)
        res = info.get("result")
        if res and not res.get("ok") and not (ctl / "killed").exists():
            # the run ended with an exception of its own before any worker reached its stop
            events.append(_ev("end", ok=False, same=False))
            return fail("run raised", exc=res.get("exc"), msg=res.get("msg"), before_planned_crash=True)
        killed = (ctl / "killed").exists() and not (ctl / "unrealised").exists() and not info["timed_out"]
        if sc.get("kill", "group") == "group":
            killed = killed and info.get("signal") == 9
        if not killed:
            return {"status": "unrealised", "why": {"info": {k: v for k, v in info.items() if k != "result"},
                                                   "flags": sorted(p.name for p in ctl.glob("*"))},
                    "trace": events, "stats": stats, "spec_w": spec_w}
        stats["cuts"] += sum(1 for r in log if r["e"] == "cut")
        stats["fallback"] += sum(1 for r in log if r["e"] == "short")
        obs = ck.observe_dir(str(base / "cache"), flavour, nk, sc.get("keys"))
        stats["other_files"] += len(obs["other"])
        stats["partial_final"] += obs["files"].count("partial")
        events.append(_ev("crash"))
        events.append(_ev("dir", files=obs["files"]))
    bad = complete_run()
    if bad:
        return bad
    if not state["verify"]:
        events.append(_ev("newrun"))
        state["verify"] = True
        bad = complete_run()
        if bad:
            return bad
    events.append(_ev("fin"))
    if not sc.get("keep"):
        shutil.rmtree(base, ignore_errors=True)
    return {"status": "ok", "trace": events, "stats": stats, "spec_w": spec_w}


def run_inproc(sc: dict) -> dict:
    """An in-process history (no crash) in ONE child process: run, rerun, [mutate, rerun,] clear + changed function,
    run, rerun ...  Every run must return what the uncached run of the CURRENT function returns; a rerun computes
    nothing.  Returns status, first failure, the recorded trace."""
    base = Path(sc["dir"])
    if base.exists():
        shutil.rmtree(base, ignore_errors=True)
    (base / "cache").mkdir(parents=True)
    job = {"flavour": sc["flavour"], "keys": sc.get("keys"), "nk": sc["nk"], "w": 0, "cache": True, "cache_dir": str(base / "cache"),
           "ctl": str(base), "log": str(base / "log.jsonl"), "result": str(base / "res.json"), "steps": sc["steps"],
           "cache_obj": sc.get("cache_obj"), "clear_how": sc.get("clear_how")}
    info = ck.spawn(job, timeout=90)
    log = ck.read_log(job["log"])
    res = info.get("result")
    events: list[dict] = []
    # split the log at the caller's operations
    chunks, cur = [], None
    for r in log:
        if r["e"] == "op":
            cur = {"op": r["op"], "log": [], "mask": r["k"]}
            chunks.append(cur)
        elif cur is not None:
            cur["log"].append(r)
    runs = (res or {}).get("out", {}).get("runs", []) if res and res.get("ok") else []
    bad, ri, first = None, 0, True
    run_steps = [st for st in sc["steps"] if st["op"] in ("run", "rerun", "rerun*")]
    expect = set(range(1, sc["nk"] + 1))        # keys the next run has to compute: those without a stored entry
    raw_computes = lambda lg: sorted(r["k"] for r in lg if r["e"] == "compute")   # noqa: E731  (worker hook, if any)
    for ch in chunks:
        if ch["op"] == "mutate":
            events.append(_ev("mutate"))
            continue
        if ch["op"] == "clear":
            events.append(_ev("clear"))
            first = True
            expect = set(range(1, sc["nk"] + 1))
            continue
        if ch["op"] == "drop":
            events.append(_ev("drop", ch["mask"]))          # k = bit mask of the dropped keys; starts the next run
            expect = {k for k in range(1, sc["nk"] + 1) if ch["mask"] >> (k - 1) & 1}
            continue
        if ch["op"] == "rerun*":
            pass
        elif ch["op"] == "rerun":
            events.append(_ev("newrun"))
        elif not first:
            events.append(_ev("newrun"))
        first = False
        evs, _ = _callback_events(ch["log"])
        events.extend(evs)
        if ri >= len(runs):
            events.append(_ev("end", ok=False, same=False))
            bad = bad or {"what": "run raised", "op_index": ri, "exc": (res or {}).get("exc"), "msg": (res or {}).get("msg"),
                          "timed_out": info["timed_out"]}
            break
        run = runs[ri]
        ri += 1
        nk_run = next((st.get("nk", sc["nk"]) for st in run_steps[ri - 1:ri]), sc["nk"])
        same = same_result(sc["flavour"], run["out"], run["ref"])
        events.append(_ev("end", ok=True, same=same))
        computed = sorted({e["k"] for e in evs if e["e"] == "compute"})
        hook = raw_computes(ch["log"])
        loads = sorted(e["k"] for e in evs if e["e"] == "load_end" and e["ok"])
        want = sorted(k for k in expect if k <= nk_run)
        rest = sorted(set(range(1, nk_run + 1)) - expect)
        if not same and not bad:
            bad = {"what": "results differ from the uncached run of the current function", "op_index": ri - 1, "op": run["op"],
                   "version": run["ver"], "got": run["out"], "expected": run["ref"]}
        elif run.get("stored", sc["nk"]) != sc["nk"] and not bad:
            bad = {"what": "a completed run did not leave one stored entry per key", "stored": run.get("stored"),
                   "keys": sc["nk"], "op_index": ri - 1, "op": run["op"]}
        elif (computed != want or (hook and sorted(set(hook)) != want) or len(hook) > len(want)) and not bad:
            bad = {"what": "a run must compute exactly the keys without a stored entry"
                           + (" (a run that follows a completed run recomputed)" if not want else ""),
                   "computed": computed, "worker_calls": hook, "expected": want, "op_index": ri - 1, "op": run["op"]}
        elif loads != rest and not bad:
            bad = {"what": "a run must load exactly the stored entries", "loaded": loads, "expected": rest,
                   "op_index": ri - 1, "op": run["op"]}
        expect = {k for k in expect if k > nk_run}
        if bad:
            break
    if not bad and (not res or not res.get("ok")):
        bad = {"what": "run raised", "exc": (res or {}).get("exc"), "msg": (res or {}).get("msg"), "timed_out": info["timed_out"]}
    if not bad:
        events.append(_ev("fin"))
        shutil.rmtree(base, ignore_errors=True)
    return {"status": "violation" if bad else "ok", "detail": bad, "trace": events, "spec_w": sc["nk"], "stats": {}}


def run_any(sc: dict) -> dict:
    return run_inproc(sc) if "steps" in sc else run_scenario(sc)


def inproc_scenarios(ctx: Ctx, payloads: list) -> list[dict]:
    """Every emitted in-process history x execution modes of the runs x both flavours."""
    hist = sorted({json.dumps(p["ops"]) for p in payloads})
    out = []
    patterns = {"seq": (0, 0), "pool": (2, 2), "run-pool/rerun-seq": (2, 0), "run-seq/rerun-pool": (0, 2)}
    for h in hist:
        ops = json.loads(h)
        if ops[-1] == "mutate":
            continue
        for fl in FLAVOURS + sorted(ck.ENTRY_POINTS):
            for name, (w_run, w_rerun) in patterns.items():
                steps = [{"op": o, "w": w_run if o == "run" else w_rerun if o.startswith("rerun") else 0} for o in ops]
                menus = MENUS.get(fl, MENUS["scan"])
                out.append({"id": f"p{len(out)}", "flavour": fl, "keys": menus[len(out) % len(menus)], "nk": 3, "ops": ops,
                            "modes": name, "steps": steps,
                            "dir": str(ctx.work / "inproc" / f"p{len(out)}")})
    return out


def clean_run(args: dict) -> dict:
    """Transparency: uncached (this mode) = reference; cached first run = reference; cached second run = reference
    without computing.  Also yields the size of every key's result file."""
    base = Path(args["dir"])
    if base.exists():
        shutil.rmtree(base, ignore_errors=True)
    (base / "cache").mkdir(parents=True)
    flavour, nk, w = args["flavour"], args["nk"], args["w"]
    out = {"flavour": flavour, "keys": args.get("keys"), "nk": nk, "w": w, "bad": None, "trace": []}

    def job(n, cache):
        return {"flavour": flavour, "keys": args.get("keys"), "nk": nk, "w": w, "cache": cache, "cache_dir": str(base / "cache"), "ctl": str(base),
                "log": str(base / f"log{n}.jsonl"), "result": str(base / f"res{n}.json")}

    ref = args.get("reference")
    info = ck.spawn(job(0, False))
    res = info.get("result")
    if not (res and res.get("ok")):
        out["bad"] = {"what": "uncached run failed", "info": info}
        return out
    out["uncached"] = res["out"]
    if ref is not None and not same_result(flavour, res["out"], ref):
        out["bad"] = {"what": "uncached results depend on the execution mode", "got": res["out"], "expected": ref}
        return out
    ref = ref or res["out"]
    for n in (1, 2):
        info = ck.spawn(job(n, True))
        res = info.get("result")
        evs, _ = _callback_events(ck.read_log(str(base / f"log{n}.jsonl")))
        out["trace"] += evs
        ok = bool(res and res.get("ok"))
        same = ok and same_result(flavour, res["out"], ref)
        out["trace"].append(_ev("end", ok=ok, same=same))
        if not ok or not same:
            out["bad"] = {"what": f"cached run {n} " + ("raised" if not ok else "differs from the uncached run"),
                          "result": res, "expected": ref}
            return out
        computed = [e["k"] for e in evs if e["e"] == "compute"]
        if n == 1:
            if sorted(computed) != list(range(1, nk + 1)):
                out["bad"] = {"what": "first cached run did not compute every key once", "computed": computed}
                return out
            out["trace"].append(_ev("newrun"))
            out["sizes"] = ck.observe_dir(str(base / "cache"), flavour, nk, args.get("keys"))["sizes"]
        elif computed:
            out["bad"] = {"what": "repeated run recomputed", "computed": computed}
            return out
    out["trace"].append(_ev("fin"))
    shutil.rmtree(base, ignore_errors=True)
    return out


# ---------------------------------------------------------------------------------------------------
# scenarios from the specification's crash histories
# ---------------------------------------------------------------------------------------------------
def stages_of(snap: dict) -> list:
    """Stage of every busy worker as the harness realises it: (key, stage, content of the file being written)."""
    return sorted((w["k"], w["at"], ck.content(snap, w["k"]) if w["at"] == "writing" else 0) for w in snap["pcs"] if w["k"])


def writing_keys(snap: dict, nchunks: int) -> list[int]:
    return [w["k"] for w in snap["pcs"] if w["k"] and w["at"] == "writing" and 0 < ck.content(snap, w["k"]) < nchunks]


def spread(size: int, n: int, rnd: random.Random) -> list[int]:
    """n byte offsets strictly inside a file of the given size (first, last, middle, then random)."""
    inside = list(range(1, size))
    if len(inside) <= n:
        return inside
    picks = {1, size - 1, size // 2}
    while len(picks) < n:
        picks.add(rnd.choice(inside))
    return sorted(picks, key=lambda o: (o not in (1, size - 1, size // 2), o))[:n]


def expand(payload: dict, flavour: str, w: int, sizes: list[int], rnd: random.Random, n_off: int | None,
           both_points: bool = False) -> list[dict]:
    """Scenarios for one emitted crash history: one per chosen byte offset of the (first) mid-write stage;
    further mid-write stages draw a random offset.  n_off None = every offset."""
    nchunks = payload["l"]
    crashes = payload["crashes"]
    mids = [(ci, k) for ci, s in enumerate(crashes) for k in writing_keys(s, nchunks)]
    base_offs = [{} for _ in crashes]
    for ci, k in mids:
        base_offs[ci][str(k)] = rnd.randrange(1, sizes[k - 1])
    variants = [base_offs]
    if mids:
        ci0, k0 = mids[0]
        size = sizes[k0 - 1]
        offs = list(range(1, size)) if n_off is None else spread(size, n_off, rnd)
        variants = []
        for o in offs:
            v = [dict(d) for d in base_offs]
            v[ci0][str(k0)] = o
            variants.append(v)
    # a 'saved' stage is realised right after the rename returned (nothing flushed by the harness) or after save_fn
    saved = [(ci, wk["k"]) for ci, sn in enumerate(crashes) for wk in sn["pcs"] if wk["k"] and wk["at"] == "saved"]
    pvars = [[{} for _ in crashes]]
    if saved:
        choices = ["replace", "save"] if both_points else [rnd.choice(["replace", "replace", "save"])]
        pvars = []
        for c in choices:
            pv = [{} for _ in crashes]
            for ci, k in saved:
                pv[ci][str(k)] = c
            pvars.append(pv)
    return [{"flavour": flavour, "w": w, "nk": payload["nk"], "l": nchunks, "crashes": crashes, "offsets": v, "points": pv}
            for v in variants for pv in pvars]


def classify_clean(sc: dict, detail: dict) -> str | None:
    """Uninterrupted runs: the only listed shape is a key set with two keys whose str() is EQUAL (1 and "1")."""
    if sc.get("keys") == "equal-str" and "differs from the uncached run" in str(detail.get("what")):
        return "keys-with-equal-str"
    return None


def classify(sc: dict, detail: dict) -> str | None:
    """Finding key from the shape of the failing scenario (DESIGN appendix D)."""
    if detail.get("what") == "run raised":
        for snap in sc["crashes"]:
            for wk in snap["pcs"]:
                if wk["k"] and wk["at"] == "writing" and ck.content(snap, wk["k"]) < sc["l"] \
                        and detail.get("failing_key", wk["k"]) == wk["k"]:
                    return "partial-file"      # crash while the file being written does not hold the whole result yet
    return None


def scenario_key(sc: dict) -> str:
    return json.dumps([sc["flavour"], sc.get("keys"), sc["w"], [[stages_of(s), sorted(s["done"])] for s in sc["crashes"]], sc["offsets"],
                       sc.get("points")], sort_keys=True)


def validate_traces(ctx: Ctx, rep: Report, items: list[tuple[str, int, int, list]], tag: str) -> dict:
    """items: (id, nk, spec_w, events).  Returns {id: accepted?}; rejected traces get their longest matched prefix."""
    verdict: dict[str, bool] = {t[0]: False for t in items}
    prefix: dict[str, int] = {}
    for verbose in (False, True):
        groups: dict[tuple[int, int], list] = {}
        for tid, nk, sw, evs in items:
            if verbose and verdict[tid]:
                continue
            groups.setdefault((nk, sw), []).append({"id": tid, "ev": evs})
        jobs, whats = [], []
        for (nk, sw), traces in sorted(groups.items()):
            size = 60 if sw > 1 else 150
            for lo in range(0, len(traces), size):
                batch = traces[lo:lo + size]
                name = f"{tag}_{nk}_{sw}_{lo}_{int(verbose)}"
                f = ctx.work / f"traces_{name}.json"
                f.write_text(json.dumps(batch))
                cfg = ctx.write_cfg(f"CacheTrace_{nk}_{sw}_{int(verbose)}.cfg",
                                    TRACE_CFG.format(nk=nk, w=sw, verbose=str(verbose).upper()))
                jobs.append(("CacheTrace.tla", str(cfg), {"tag": f"trace_{name}", "workers": 2, "env": {"TRACE_FILE": str(f)}}))
                whats.append(f"trace validation ({tag}): {len(batch)} recorded traces, {nk} keys, {sw} workers"
                             + (" (prefix search for rejected traces)" if verbose else ""))
        for lo in range(0, len(jobs), 8):
            for res, what in zip(_tlc_many(ctx, jobs[lo:lo + 8]), whats[lo:lo + 8]):
                rep.add_tlc(res, what)
                for p in res.payloads:
                    if p["acc"]:
                        verdict[p["id"]] = True
                    else:
                        prefix[p["id"]] = max(prefix.get(p["id"], 0), p["l"] - 1)
    return {"verdict": verdict, "prefix": prefix}


def corruptions(evs: list[dict]) -> dict[str, list]:
    """Hand-made corruptions of an accepted trace; TLC must reject every one of them (binding self-test)."""
    out = {}
    idx = {e: [i for i, x in enumerate(evs) if x["e"] == e] for e in CB_EVENTS | {"dir", "end"}}
    if idx["load_end"]:
        t = [dict(x) for x in evs]
        t[idx["load_end"][-1]]["ok"] = False
        out["load-fails"] = t
    if idx["compute"]:
        t = [dict(x) for x in evs]
        del t[idx["compute"][0]]
        out["compute-event-dropped"] = t
        t = [dict(x) for x in evs]
        t.insert(len(t) - 2, dict(evs[idx["compute"][0]]))
        out["compute-in-repeated-run"] = t
    if idx["dir"]:
        t = [dict(x) for x in evs]
        i = idx["dir"][0]
        files = list(t[i]["files"])
        j = next((n for n, c in enumerate(files) if c == "absent"), 0)
        files[j] = "complete" if files[j] != "complete" else "absent"
        t[i]["files"] = files
        out["directory-observation-altered"] = t
    if idx["end"]:
        t = [dict(x) for x in evs]
        t[idx["end"][0]]["same"] = False
        out["wrong-result"] = t
    inner = sorted(idx["compute"] + idx["load_begin"])
    if inner:
        t = [dict(x) for x in evs]
        i = inner[0]
        t[i]["k"] = t[i]["k"] % 3 + 1
        out["key-altered"] = t
    return out


TRACE_CFG = """CONSTANTS
    NKeys = {nk}
    W = {w}
    L = 1
    Design = "any"
    Policy = "any"
    RenameAt = "closed"
    BypassOne = FALSE
    MkdirAtBuild = FALSE
    Recover = FALSE
    Forwards = TRUE
    MaxDrop = 3
    LossyNames = FALSE
    Memo = FALSE
    MaxClear = 2
    MaxExtra = 2
    MaxCrash = 4
    Fifo = FALSE
    EmitOn = FALSE
    Verbose = {verbose}
INIT TInit
NEXT TNext
INVARIANT Accept
INVARIANT Progress2
CHECK_DEADLOCK FALSE
"""


# ---------------------------------------------------------------------------------------------------
def _tlc_many(ctx: Ctx, jobs: list[tuple]) -> list:
    """Independent TLC runs side by side (threads around subprocesses; finished before anything forks)."""
    from concurrent.futures import ThreadPoolExecutor

    def one(j):
        module, cfg, kw = j
        try:
            return ctx.tlc(module, cfg, **kw)
        except MachineryError as e:
            return e

    with ThreadPoolExecutor(max_workers=min(6, len(jobs))) as ex:     # <= 6 JVMs side by side
        out = list(ex.map(one, jobs))
    for r in out:
        if isinstance(r, Exception):
            raise r
    return out


def model_check(ctx: Ctx, rep: Report) -> dict:
    """All TLC runs on the specification itself; returns the emitted crash histories per cfg."""
    jobs = [
        ("pinned", "CacheCrash_pinned.cfg", {"expect_violation": True, "workers": 2}, ""),
        ("earlyrename", "CacheCrash_earlyrename.cfg", {"expect_violation": True, "workers": 2}, ""),
        ("memo", "CacheCrash_memo.cfg", {"expect_violation": True, "workers": 2}, ""),
        ("nocache", "CacheCrash_nocache.cfg", {"expect_violation": True, "workers": 2}, ""),
        ("bypass1", "CacheCrash_bypass1.cfg", {"expect_violation": True, "workers": 2}, ""),
        ("mkdir", "CacheCrash_mkdir.cfg", {"expect_violation": True, "workers": 2}, ""),
        ("one", "CacheCrash_one.cfg", {"workers": 2}, "key set of size one: in-process histories, every contract invariant"),
        ("promote", "CacheCrash_promote.cfg", {"expect_violation": True, "workers": 2}, ""),
        ("lossy", "CacheCrash_lossy.cfg", {"expect_violation": True, "workers": 2}, ""),
        ("inproc", "CacheCrash_inproc.cfg", {"workers": 2},
         "in-process histories without a crash (run, rerun, mutate, clear + changed function, ...): RightResults, "
         "NoRecompute, NoRaise; emits the histories"),
        ("live", "CacheCrash_live.cfg", {"coverage": True, "workers": 2},
         "termination of every uncrashed run (liveness) + NoRaise, temp+rename, 2 workers, 2 keys, <= 2 crashes"),
        ("validate", "CacheCrash_validate.cfg", {"workers": 2},
         "alternative repair direct write + validating load: NoRaise, NoRecompute (2 workers, 3 keys, <= 2 crashes)"),
        ("tempvalidate", "CacheCrash_tempvalidate.cfg", {"workers": 2},
         "temp+rename with validating load: NoRaise, NoRecompute (2 workers, 3 keys, <= 2 crashes)"),
    ]
    emit = [("seq", "sequential, 3 keys, <= 2 crashes"), ("par", "2 workers, 3 keys, 1 crash")]
    if not ctx.quick:
        emit += [("par2x", "2 workers, 2 keys, <= 2 crashes"), ("par3", "3 workers, 3 keys, 1 crash")]
        jobs.append(("par4", "CacheCrash_par4.cfg", {"workers": 4}, "2 workers, 4 keys, <= 2 crashes: NoRaise, NoRecompute (no emission)"))
    for name, what in emit:
        jobs.append((name, f"CacheCrash_{name}.cfg", {"workers": 8 if name == "par3" else 4},
                     f"every crash point: NoRaise, NoRecompute, FinalWhole, no deadlock; emission of crash histories ({what})"))
    results = _tlc_many(ctx, [("CacheCrash.tla", cfg, kw) for _, cfg, kw, _ in jobs])
    emitted = {}
    for (name, cfg, _kw, what), res in zip(jobs, results):
        if name == "pinned":
            if res.violated != "NoRaise":
                raise MachineryError("the implementation-shaped instance (write into the final path, existence = "
                                     f"available) should violate NoRaise; TLC said {res.violated!r}: the specification "
                                     "has lost its teeth")
            rep.notes["pinned_commit_design_counterexample"] = (
                f"TLC: NoRaise violated for Design=direct, Policy=trust ({res.distinct} states): crash between Open "
                "and the last Write, the rerun raises")
            continue
        if name == "nocache":
            if res.violated != "NoRecompute":
                raise MachineryError("the wrong instance 'an entry point accepts cache= but does not forward it' should "
                                     f"violate NoRecompute; TLC said {res.violated!r}")
            rep.notes["dropped_cache_counterexample"] = (
                f"TLC: NoRecompute violated for Forwards=FALSE ({res.distinct} states): nothing is stored, the repeated run computes")
            continue
        if name in ("bypass1", "mkdir"):
            want = {"bypass1": "NoRecompute", "mkdir": "NoRaise"}[name]
            if res.violated != want:
                raise MachineryError(f"the wrong instance {cfg} should violate {want}; TLC said {res.violated!r}")
            rep.notes[f"{name}_counterexample"] = f"TLC: {want} violated ({res.distinct} states)"
            continue
        if name == "promote":
            if res.violated != "NoRaise":
                raise MachineryError("the wrong instance 'leftover temporary files are promoted when the next run starts' "
                                     f"should violate NoRaise; TLC said {res.violated!r}")
            rep.notes["promoted_fragment_counterexample"] = (
                f"TLC: NoRaise violated for Recover=TRUE ({res.distinct} states): crash strictly inside a write, the rerun "
                "publishes the fragment under the final name and the load raises")
            continue
        if name == "lossy":
            if res.violated != "RightResults":
                raise MachineryError("the wrong instance 'lossy file names' (sibling keys share one result file) should "
                                     f"violate RightResults; TLC said {res.violated!r}")
            rep.notes["lossy_names_counterexample"] = (
                f"TLC: RightResults violated for LossyNames=TRUE ({res.distinct} states): the second sibling key hits the "
                "first one's file and gets its result (Injective holds in every other instance)")
            continue
        if name == "memo":
            if res.violated != "RightResults":
                raise MachineryError("the wrong instance 'process-wide memo keyed by the file path' should violate "
                                     f"RightResults; TLC said {res.violated!r}")
            rep.notes["path_keyed_memo_counterexample"] = (
                f"TLC: RightResults violated for Memo=TRUE ({res.distinct} states): run, rerun (hit memoised), cache "
                "cleared + function changed, run, rerun returns the old function's result although the disk holds the new one")
            continue
        if name == "inproc":
            if not res.payloads:
                raise MachineryError("no in-process histories emitted by CacheCrash_inproc.cfg")
            emitted["inproc"] = res.payloads
        if name == "earlyrename":
            if res.violated != "NoRaise":
                raise MachineryError("the wrong order 'rename before close' (temp file moved onto the final path while "
                                     f"still buffered) should violate NoRaise; TLC said {res.violated!r}")
            rep.notes["rename_before_close_counterexample"] = (
                f"TLC: NoRaise violated for RenameAt=written ({res.distinct} states): crash after the rename and before "
                "Close leaves a final path that lacks the buffered chunks, the rerun raises")
            continue
        rep.add_tlc(res, what)
        if name == "live":
            rep.require_coverage(res, ["Take", "Lookup", "LoadOk", "Compute", "Open", "Write", "Close", "Rename",
                                       "Flush", "Return", "FinishRun", "NextRun", "EndAll", "Crash"])
        if name in dict(emit):
            if not res.payloads:
                raise MachineryError(f"no crash histories emitted by {cfg}")
            emitted[name] = sorted(res.payloads, key=lambda p: json.dumps(p, sort_keys=True))
    return emitted


def with_keys(sizes: dict, rnd: random.Random, p: dict, fl: str, w: int, n_off, **kw) -> list[dict]:
    """expand() under a seeded choice of the key menu (sizes: {(flavour, menu): file sizes})."""
    menu = rnd.choice(sorted(m for f, m in sizes if f == fl))
    out = expand(p, fl, w, sizes[(fl, menu)], rnd, n_off, **kw)
    for sc in out:
        sc["keys"] = menu
    return out


def build_scenarios(ctx: Ctx, emitted: dict, sizes: dict) -> list[dict]:
    rnd = random.Random(ctx.seed)
    q = ctx.quick
    scs: list[dict] = []
    seq = emitted["seq"]
    single = [p for p in seq if len(p["crashes"]) == 1]
    double = [p for p in seq if len(p["crashes"]) == 2]
    # A. every sequential crash point x both flavours x sequential mode and a pool of one
    for p in single:
        for fl in FLAVOURS:
            for w in (0, 1):
                exhaustive = (not q) and fl == "pmap"
                n_off = None if exhaustive else (3 if q else 24)
                scs += with_keys(sizes, rnd, p, fl, w, n_off, both_points=True)
    # B. two crashes in a row
    pick = rnd.sample(double, 50 if q else min(800, len(double)))
    for p in pick:
        fl = rnd.choice(FLAVOURS)
        scs += with_keys(sizes, rnd, p, fl, rnd.choice((0, 1)), 1)
    # C. pools of 2 (and 3) workers: every global crash state
    par = emitted["par"]
    pick = rnd.sample(par, 120) if q else par
    for p in pick:
        for fl in ([rnd.choice(FLAVOURS)] if q else FLAVOURS):
            scs += with_keys(sizes, rnd, p, fl, 2, 1 if q else 3)
    if not q:
        for name, w, n in (("par3", 3, 450), ("par2x", 2, 350)):
            ps = emitted[name]
            for p in rnd.sample(ps, min(n, len(ps))):
                fl = rnd.choice(FLAVOURS)
                scs += with_keys(sizes, rnd, p, fl, w, 1)
    seen, out = set(), []
    for sc in scs:
        key = scenario_key(sc)
        if key in seen:
            continue
        seen.add(key)
        sc["id"] = f"s{len(out)}"
        sc["dir"] = str(ctx.work / "sc" / sc["id"])
        out.append(sc)
    return out


def run(ctx: Ctx) -> int:
    rep = Report(ctx)
    rep.rule = ("one case = (flavour parallelise|scan.steady_state, sequential or pool size, crash history = stage of "
                "every worker at each kill, byte offsets of interrupted writes); non-trivial = at least one key is in "
                "progress at a kill; distinct by that tuple")
    rep.assumptions = [
        "an interruption is the death of the processes of the run (SIGKILL of the process group); bytes already "
        "written stay in the file (no power loss: no claim about fsync durability)",
        "os.replace within one directory is atomic",
        "keys of one run are distinct; one run at a time uses a cache directory",
        "results are stored with the library's default name/load/save functions (pickle)",
    ]
    import mxlpy.parallel  # noqa: F401  (imported before forking: children must not pay the import)
    import mxlpy.scan  # noqa: F401
    import pandas  # noqa: F401

    emitted = model_check(ctx, rep)

    # ---- transparency on clean runs, reference results, file sizes ------------------------------------------
    nk = 3
    refs, sizes = {}, {}
    combos = [(fl, m) for fl in FLAVOURS for m in MENUS[fl]] + [("pmap", "equal-str")]
    firsts = ck.lanes(clean_run, [{"flavour": fl, "keys": m, "nk": nk, "w": 0, "dir": str(ctx.work / "clean" / f"{fl}_{m}_ref")}
                                  for fl, m in combos], ctx.work, n=8, tag="ref")
    trace_items = []
    for (fl, m), first in zip(combos, firsts):
        rep.evaluations += 1
        rep.replayed += 1
        if first["bad"]:
            scen = {"flavour": fl, "keys": m, "w": 0, "nk": nk, "crashes": [], "l": 2, "clean": True}
            rep.mismatch(scen, first["bad"], classify_clean(scen, first["bad"]))
            if "uncached" in first and m != "equal-str":
                # the key set stays in use (its uncached reference exists): the scenarios over it are judged too
                refs[(fl, m)], sizes[(fl, m)] = first["uncached"], first.get("sizes")
            continue
        refs[(fl, m)], sizes[(fl, m)] = first["uncached"], first["sizes"]
        trace_items.append((f"clean/{fl}/{m}/{nk}/0", nk, nk, first["trace"]))
    sizes.pop(("pmap", "equal-str"), None)
    if any(not sizes.get((fl, MENUS[fl][0])) for fl in FLAVOURS):
        return rep.finish()            # not even the plain key set works: nothing else can be judged
    for (fl, m) in list(sizes):
        if not sizes[(fl, m)]:
            sizes[(fl, m)] = sizes[(fl, MENUS[fl][0])]
    rnd_c = random.Random(ctx.seed + 3)
    clean_jobs = []
    for fl in FLAVOURS:
        usable = sorted(m for f, m in sizes if f == fl)
        for n in (2, 3, 5):
            for w in (0, 1, 2, 3, 16):
                if (n, w) != (nk, 0):
                    m = rnd_c.choice(usable)
                    clean_jobs.append({"flavour": fl, "keys": m, "nk": n, "w": w, "dir": str(ctx.work / "clean" / f"{fl}_{n}_{w}"),
                                       "reference": refs[(fl, m)] if n == nk else None})
    rep.notes["result_file_sizes"] = {f"{fl}/{m}": v for (fl, m), v in sizes.items()}
    cleans = ck.lanes(clean_run, clean_jobs, ctx.work, n=8, tag="clean")
    for j, c in zip(clean_jobs, cleans):
        rep.evaluations += 1
        rep.replayed += 1
        if c["bad"]:
            scen = {"flavour": c["flavour"], "keys": c["keys"], "w": c["w"], "nk": c["nk"], "crashes": [], "l": 2, "clean": True}
            rep.mismatch(scen, c["bad"], classify_clean(scen, c["bad"]))
        elif c["nk"] == nk:
            trace_items.append((f"clean/{c['flavour']}/{c['keys']}/{c['nk']}/{c['w']}", c["nk"], c["nk"], c["trace"]))

    # ---- spec -> code: fault injection ---------------------------------------------------------------------
    scs = build_scenarios(ctx, emitted, sizes)
    for sc in scs:
        sc["reference"] = refs[(sc["flavour"], sc["keys"])] if sc["nk"] == nk else None
    need_ref = sorted({(sc["flavour"], sc["keys"], sc["nk"]) for sc in scs if sc["reference"] is None})
    for fl, m, n in need_ref:
        c = clean_run({"flavour": fl, "keys": m, "nk": n, "w": 0, "dir": str(ctx.work / "clean" / f"{fl}_{m}_ref{n}")})
        if c["bad"]:
            raise MachineryError(f"reference run failed: {c['bad']}")
        for sc in scs:
            if (sc["flavour"], sc["keys"], sc["nk"]) == (fl, m, n):
                sc["reference"] = c["uncached"]
                # sizes of this key count may differ from the 3-key reference: offsets were drawn inside the 3-key
                # sizes; clamp
                for offs in sc["offsets"]:
                    for k in list(offs):
                        offs[k] = max(1, min(offs[k], c["sizes"][int(k) - 1] - 1))
    psc = [p for p in inproc_scenarios(ctx, emitted["inproc"])
           if p["flavour"] in ck.ENTRY_POINTS or (p["flavour"], p["keys"]) in sizes]
    # base flavours: the canonical histories in every execution pattern + a seeded sample of the others.
    # Every public entry point that takes cache= : fresh -> repeated -> half-filled (-> cleared), in two execution
    # patterns each (seeded), + a sample.
    rnd_p = random.Random(ctx.seed + 7)
    canon_ops = (["run", "rerun", "clear", "run", "rerun"], ["run", "rerun", "mutate", "rerun", "clear", "run", "rerun"])
    ep_ops = (["run", "rerun", "drop{1}", "rerun*", "rerun"], ["run", "drop{2}", "rerun*", "clear", "run", "rerun"])
    base = [p for p in psc if p["flavour"] in FLAVOURS]
    canon = [p for p in base if p["ops"] in canon_ops or (p["ops"] == ep_ops[0] and p["modes"] in ("seq", "pool"))]
    chosen = list(canon)
    for ep in sorted(ck.ENTRY_POINTS):
        for ops in ep_ops:
            cands = [p for p in psc if p["flavour"] == ep and p["ops"] == ops]
            if not cands:
                raise MachineryError(f"in-process history {ops} was not emitted by CacheCrash_inproc.cfg")
            chosen.append(rnd_p.choice(cands))
    def extra(fl, ops, nk_, **kw):
        steps = [{"op": o.split(":")[0], "w": 0 if kw.get("seq", True) else 2,
                  **({"nk": int(o.split(":")[1])} if ":" in o else {})} for o in ops]
        menus = MENUS.get(fl, MENUS["scan"])
        return {"id": f"x{len(extras)}", "flavour": fl, "keys": menus[len(extras) % len(menus)], "nk": nk_, "ops": ops,
                "modes": "seq" if kw.get("seq", True) else "pool", "steps": steps, "dir": str(ctx.work / "inproc" / f"x{len(extras)}"),
                "cache_obj": kw.get("cache_obj"), "clear_how": kw.get("clear_how"), "notrace": kw.get("notrace", False)}

    extras: list[dict] = []
    for n_, fl in enumerate(["pmap"] + sorted(ck.ENTRY_POINTS)):
        # key set of size ONE (one-row table / one Monte-Carlo sample): fresh, repeated, cleared
        extras.append(extra(fl, ["run", "rerun", "clear", "run", "rerun"], 1, seq=n_ % 2 == 0))
        # asking a complete cache for one key only
        extras.append(extra(fl, ["run", "rerun:1", "rerun"], 3, seq=n_ % 2 == 1, notrace=True))
        # ONE Cache object across the whole history: directory deleted (rmtree) / object re-pointed to a new directory
        extras.append(extra(fl, ["run", "rerun", "clear", "run", "rerun"], 3 if n_ % 2 else 2, seq=n_ % 3 != 0,
                            cache_obj="shared", clear_how="rmtree" if n_ % 2 == 0 else "repoint"))
    extras.append(extra("pmap", ["run", "rerun"], 0, notrace=True))           # the empty key set
    extras.append(extra("pmap", ["run", "rerun", "clear", "run", "rerun"], 3, cache_obj="shared", clear_how="repoint"))
    chosen += extras
    rest = [p for p in psc if p not in chosen and p["flavour"] in FLAVOURS + sorted(ck.ENTRY_POINTS)]
    psc = chosen + rnd_p.sample(rest, min(12 if ctx.quick else 150, len(rest)))
    both = ck.lanes(run_any, psc + scs, ctx.work, n=8, tag="inj")
    presults, results = both[:len(psc)], both[len(psc):]
    unreal, cuts, fallback, other, partial = 0, 0, 0, 0, 0
    failed: dict[str, dict] = {}
    for sc, r in zip(scs, results):
        rep.evaluations += 1
        st = r.get("stats", {})
        cuts += st.get("cuts", 0)
        fallback += st.get("fallback", 0)
        other += st.get("other_files", 0)
        partial += st.get("partial_final", 0)
        if r["status"] == "unrealised":
            unreal += 1
            continue
        rep.replayed += 1
        if any(stages_of(s) for s in sc["crashes"]):
            rep.distinct.add(scenario_key(sc))
        trace_items.append((sc["id"], sc["nk"], r["spec_w"], r["trace"]))
        if r["status"] == "violation":
            failed[sc["id"]] = r["detail"]
    for sc, r in zip(psc, presults):
        rep.evaluations += 1
        rep.replayed += 1
        rep.distinct.add(json.dumps(["inproc", sc["flavour"], sc["ops"], sc["modes"]]))
        if sc.get("notrace"):          # a run over a prefix of the keys / the empty key set: judged by the replayer only
            if r["status"] == "violation":
                rep.mismatch({"inproc": True, "crashes": [], "l": 2, **{k: sc.get(k) for k in
                                                                         ("flavour", "keys", "nk", "ops", "modes", "steps", "cache_obj", "clear_how")}},
                             r["detail"], None)
            continue
        trace_items.append((sc["id"], sc["nk"], r["spec_w"], r["trace"]))
        if r["status"] == "violation":
            failed[sc["id"]] = r["detail"]
    rep.notes["in_process_histories"] = len(psc)
    for sc in scs[:: max(1, len(scs) // 4)][:4]:
        rep.sample({k: sc[k] for k in ("flavour", "keys", "w", "nk", "crashes", "offsets", "points")})
    rep.notes.update({"scenarios": len(scs), "unrealised_discarded": unreal, "mid_write_cuts_realised": cuts,
                      "stage_not_passed_fallbacks": fallback,
                      "advisory_leftover_non_key_files_seen_after_crashes": other,
                      "advisory_partial_final_paths_seen_after_crashes": partial})
    machinery = None
    if cuts == 0:
        machinery = "no write of a result file was ever interrupted: the file-level interception sees nothing"
    elif unreal > 0.1 * len(scs):
        machinery = f"{unreal} of {len(scs)} crash scenarios could not be realised"

    # ---- code -> spec: every recorded trace judged by TLC --------------------------------------------------
    ids = {sc["id"] for sc in scs}
    donors = [t for t in trace_items if t[0] in ids and t[0] not in failed and t[1] == 3
              and {"dir", "load_end", "compute"} <= {e["e"] for e in t[3]}]
    donor = max(donors[:60], key=lambda t: len(t[3]), default=None)
    corrupt = {}
    if donor:
        corrupt = {f"corrupt/{name}": (f"corrupt/{name}", donor[1], donor[2], evs) for name, evs in corruptions(donor[3]).items()}
    tv = validate_traces(ctx, rep, trace_items + list(corrupt.values()), "all")
    by_id = {sc["id"]: sc for sc in scs}
    by_pid = {sc["id"]: sc for sc in psc}
    for tid, _nk, _sw, evs in trace_items:
        acc = tv["verdict"].get(tid, False)
        sc = by_id.get(tid)
        scen = ({k: sc[k] for k in ("flavour", "keys", "w", "nk", "l", "crashes", "offsets", "points")} if sc
                else {"inproc": True, "crashes": [], "l": 2, **{k: by_pid[tid].get(k) for k in ("flavour", "keys", "nk", "ops", "modes", "steps", "cache_obj", "clear_how")}}
                if tid in by_pid else {"clean": tid, "crashes": [], "l": 2})
        if tid in failed:
            if acc:
                raise MachineryError(f"trace {tid}: the replayer saw {failed[tid]} but TLC accepted the trace")
            det = {**failed[tid], "tlc": "rejected", "matched_prefix": tv["prefix"].get(tid), "events": len(evs)}
            rep.mismatch(scen, det, classify(scen, det))
        elif acc:
            rep.traces += 1
        else:
            pre = tv["prefix"].get(tid, 0)
            det = {"what": "recorded trace is not a behaviour of any property-satisfying design", "tlc": "rejected",
                   "matched_prefix": pre, "first_unmatched_event": evs[pre] if pre < len(evs) else None, "trace": evs}
            rep.mismatch(scen, det, classify(scen, det) if sc else None)
    # binding self-test (only meaningful when TLC accepted the donor; a broken tree must end in VIOLATION lines,
    # never in a machinery failure of the self-test)
    if donor and tv["verdict"].get(donor[0]):
        wrongly = [c for c in corrupt if tv["verdict"].get(c)]
        if wrongly or len(corrupt) < 6:
            raise MachineryError(f"binding self-test: corrupted copies of an accepted trace were accepted by TLC: {wrongly}")
        rep.notes["binding_selftest"] = {c: f"rejected after {tv['prefix'].get(c, 0)} of {len(corrupt[c][3])} events" for c in sorted(corrupt)}
    elif not rep.violations:
        raise MachineryError("binding self-test: no accepted crash trace to corrupt")
    else:
        rep.notes["binding_selftest"] = "skipped: no accepted crash trace on this tree (see the violations)"
    if machinery and not rep.violations and not rep.known_hits:
        raise MachineryError(machinery)
    if machinery:
        rep.notes["machinery_note"] = machinery + " (consequence of the violations reported)"
    return rep.finish()


def replay(ctx: Ctx, doc: dict) -> int:
    import mxlpy.parallel  # noqa: F401
    import mxlpy.scan  # noqa: F401

    sc = dict(doc["scenario"])
    if sc.get("clean"):
        print("(clean-run case: re-run the check)")
        return 2
    if sc.get("inproc"):
        sc.update({"id": "replay", "dir": str(ctx.work / "replay")})
        r = run_inproc(sc)
        rep = Report(ctx)
        tv = validate_traces(ctx, rep, [("replay", sc["nk"], r["spec_w"], r["trace"])], "replay")
        acc = tv["verdict"].get("replay", False)
        print(json.dumps({"status": r["status"], "detail": r.get("detail"), "tlc_accepts_trace": acc}, indent=1, default=str)[:3000])
        if r["status"] == "violation" or not acc:
            print("VIOLATION property=C19 replay=(given)")
            return 1
        print("conforms")
        return 0
    ref = clean_run({"flavour": sc["flavour"], "keys": sc.get("keys"), "nk": sc["nk"], "w": 0, "dir": str(ctx.work / "ref")})
    if ref["bad"]:
        print(json.dumps(ref["bad"], indent=1, default=str))
        print("VIOLATION property=C19 replay=(given)")
        return 1
    sc.update({"id": "replay", "dir": str(ctx.work / "replay"), "reference": ref["uncached"], "keep": True})
    r = run_scenario(sc)
    rep = Report(ctx)
    tv = validate_traces(ctx, rep, [("replay", sc["nk"], r["spec_w"], r["trace"])], "replay")
    acc = tv["verdict"].get("replay", False)
    print(json.dumps({"status": r["status"], "detail": r.get("detail") or r.get("why"), "tlc_accepts_trace": acc,
                      "matched_prefix": tv["prefix"].get("replay"), "events": len(r["trace"])}, indent=1, default=str))
    if r["status"] == "unrealised":
        print("crash point could not be realised")
        return 2
    if r["status"] == "violation" or not acc:
        print("VIOLATION property=C19 replay=(given)")
        return 1
    print("conforms")
    return 0
