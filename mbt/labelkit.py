"""Rendering LabelExpand.tla base content (JSON emitted by TLC) into real mxlpy models and label mappers, and
projecting what the label mappers build back onto the specification's observables (C05, C16).

The base content record ``b`` (see spec/LabelExpand.tla): cpds, nl, init, pars, der, rxns[{name, subs, prods,
args, mapped, map}].  A rate is the product of its argument values; derived quantities are sums or products.
Only integers are used, so Python floats reproduce the specification's values exactly.
"""

from __future__ import annotations

import random
from fractions import Fraction

from .tlc import fn_to_dict


# ---- the function universe (fixed arity: the library inspects signatures in places) -------------------------
def prod1(a):
    return a


def prod2(a, b):
    return a * b


def prod3(a, b, c):
    return a * b * c


def prod4(a, b, c, d):
    return a * b * c * d


def sum1(a):
    return a


def sum2(a, b):
    return a + b


def sum3(a, b, c):
    return a + b + c


def sum4(a, b, c, d):
    return a + b + c + d


PROD = {1: prod1, 2: prod2, 3: prod3, 4: prod4}
SUM = {1: sum1, 2: sum2, 3: sum3, 4: sum4}


def norm_b(b: dict) -> dict:
    """TLC prints empty functions as [] and functions over 1..n as arrays: normalise."""
    b = dict(b)
    for k in ("nl", "init", "pars", "der"):
        b[k] = fn_to_dict(b.get(k, {}))
    b["rxns"] = [dict(r) for r in b["rxns"]]
    return b


def stoichiometry(r: dict, rnd: random.Random | None = None) -> dict:
    """The base stoichiometry dict whose unpacking gives r.subs / r.prods (integers, as the mappers require).

    The relative order of the substrates and of the products is part of the content (it numbers the atom
    positions); how substrates and products interleave in the dict is not, so it is shuffled."""
    keys_s, keys_p = [], []
    for c in r["subs"]:
        if c not in keys_s:
            keys_s.append(c)
    for c in r["prods"]:
        if c not in keys_p:
            keys_p.append(c)
    order = [("s", c) for c in keys_s] + [("p", c) for c in keys_p]
    if rnd is not None:
        merged, s, p = [], list(keys_s), list(keys_p)
        while s or p:
            if s and (not p or rnd.random() < 0.5):
                merged.append(("s", s.pop(0)))
            else:
                merged.append(("p", p.pop(0)))
        order = merged
    st = {}
    den = int(r.get("den", 1))
    for kind, c in order:
        n = -r["subs"].count(c) if kind == "s" else r["prods"].count(c)
        st[c] = n if den == 1 else n / den        # (only unmapped reactions carry non-integer coefficients)
    return st


def build_base(b: dict, rnd: random.Random | None = None):
    from mxlpy import Model

    m = Model()
    m.add_variables({c: int(b["init"][c]) for c in b["cpds"]})
    m.add_parameters({p: int(v) for p, v in b["pars"].items()})
    for d, dd in b["der"].items():
        fn = (SUM if dd["fn"] == "sum" else PROD)[len(dd["args"])]
        m.add_derived(d, fn, args=list(dd["args"]))
    for r in b["rxns"]:
        m.add_reaction(r["name"], PROD[len(r["args"])], args=list(r["args"]), stoichiometry=stoichiometry(r, rnd))
    return m


def label_variables(b: dict) -> dict:
    return {c: int(b["nl"][c]) for c in b["cpds"] if int(b["nl"][c]) > 0}


def label_maps(b: dict) -> dict:
    return {r["name"]: [int(x) for x in r["map"]] for r in b["rxns"] if r["mapped"]}


def initial_labels(req: dict) -> dict:
    out = {}
    for c, rq in fn_to_dict(req).items():
        if rq["k"] == "int":
            out[c] = int(rq["ps"][0])
        elif rq["k"] == "list":
            out[c] = [int(p) for p in rq["ps"]]
    return out


def raw_reactions(model) -> dict:
    out = {}
    for name, rxn in model.get_raw_reactions().items():
        st = {}
        for k, v in rxn.stoichiometry.items():
            if not isinstance(v, (int, float)):
                st[k] = repr(v)
            elif v != 0:
                st[k] = v
        out[name] = {"st": st, "args": list(rxn.args)}
    return out


def frac(x) -> Fraction:
    """[n, d] record of the specification -> Fraction."""
    return Fraction(int(x["n"]), int(x["d"]))
