-------------------------- MODULE ResultViewsTrace --------------------------
(***************************************************************************)
(* C10, code -> spec.  A seeded client read randomly drawn results         *)
(* (random segment counts, parameter values, integer states, times)        *)
(* through the real public API under a recorder, with random flag          *)
(* combinations / defaults / normalisation arguments and with parameter    *)
(* updates on the shared model in between.  Every event carries the read   *)
(* in the specification's vocabulary and a digest of what the              *)
(* implementation answered (integer numerators = value x the row's         *)
(* factor).  TLC accepts an event iff the digest equals View(op, result)   *)
(* -- the SAME operator ResultViewsMC checks and emits from; because the   *)
(* specified answers do not depend on the history, events are judged one   *)
(* by one and every rejected position of a trace is reported.              *)
(***************************************************************************)
EXTENDS ResultViews, Json, IOUtils

Traces == JsonDeserialize(IOEnv.TRACE_FILE)

VARIABLE tid

ToSet(s) == {s[j] : j \in DOMAIN s}

ResOf(tr, ev) == [variant |-> tr.res.variant, segs |-> tr.res.segs,
                  fscalar |-> ev.op.fscalar, fseg |-> ev.op.fseg, frow |-> ev.op.frow]
OpOf(ev) == [view |-> ev.op.view, flags |-> ToSet(ev.op.flags), v |-> ev.op.v, scaled |-> ev.op.scaled,
             concat |-> ev.op.concat, norm |-> ev.op.norm]

SameAns(exp, obs, skipT) ==
    /\ Len(exp) = Len(obs)
    /\ \A i \in DOMAIN exp :
          /\ Len(exp[i]) = Len(obs[i])
          /\ \A j \in DOMAIN exp[i] :
                /\ skipT \/ exp[i][j].t = obs[i][j].t
                /\ DOMAIN exp[i][j].v = DOMAIN obs[i][j].v
                /\ \A n \in DOMAIN exp[i][j].v : exp[i][j].v[n] = obs[i][j].v[n]

\* the columns in which a structurally matching answer differs ("?" when the structure itself differs)
BadNames(exp, obs, skipT) ==
    IF /\ Len(exp) = Len(obs)
       /\ \A i \in DOMAIN exp : /\ Len(exp[i]) = Len(obs[i])
                                 /\ \A j \in DOMAIN exp[i] : /\ (skipT \/ exp[i][j].t = obs[i][j].t)
                                                              /\ DOMAIN exp[i][j].v = DOMAIN obs[i][j].v
    THEN UNION {UNION {{n \in DOMAIN exp[i][j].v : exp[i][j].v[n] # obs[i][j].v[n]} : j \in DOMAIN exp[i]} : i \in DOMAIN exp}
    ELSE {"?"}

Accept(tr, tabs, ev) ==
    \/ ev.op.view = "update"
    \/ /\ ev.exc = ""
       /\ ev.rawsame          \* the recorder found the result's stored frames and parameter snapshots untouched
       /\ SameAns(ViewT(OpOf(ev), ResOf(tr, ev), tabs), ev.ans, ev.op.view = "newy0")

Verdict(tr) ==
    LET r0   == [variant |-> tr.res.variant, segs |-> tr.res.segs, fscalar |-> 1, fseg |-> <<>>, frow |-> <<>>]
        tabs == SpecTables(r0)
    IN [id    |-> tr.id,
        bad   |-> {k \in DOMAIN tr.events : ~Accept(tr, tabs, tr.events[k])},
        cols  |-> [k \in DOMAIN tr.events |->
                     LET ev == tr.events[k]
                     IN IF ev.op.view = "update" \/ ev.exc # "" \/ Accept(tr, tabs, ev) THEN {}
                        ELSE BadNames(ViewT(OpOf(ev), ResOf(tr, ev), tabs), ev.ans, ev.op.view = "newy0")],
        reads |-> Cardinality({k \in DOMAIN tr.events : tr.events[k].op.view # "update"}),
        \* the recorded result is a well-formed member of the family, and the theorems hold of it too
        wf    |-> \A v \in {"x", "y"} : SignStable(r0, tabs, v),
        thm   |-> \A v \in {"x", "y"} : ProdCons(r0, tabs, v)]

Init == tid \in 1..Len(Traces)
Next == UNCHANGED tid

Judge == PrintT("@J@" \o ToJson(Verdict(Traces[tid])) \o "@E@")
=============================================================================
