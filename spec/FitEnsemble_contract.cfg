\* C20 ensemble / carousel fits: the wrapper forwards every option (contract); scenarios with each member's exact residual
CONSTANTS
    Kinds = {"tc", "ptc", "ssc"}
    Dropped = "none"
    EmitOn = TRUE
INIT Init
NEXT Next
INVARIANT Forwards
INVARIANT Emit
CHECK_DEADLOCK FALSE
