\* C15, limit of the criterion itself: with the RELATIVE norm and a tolerance above 1 / MaxSteps a linearly
\* accumulating network satisfies ||(y2 - y1) / y1|| < tol after ~1/tol steps although it has no steady state.
\* TLC must find this (so the claim is stated for relative tolerances < 1 / MaxSteps only).
CONSTANTS
    MaxSteps = 1000
    Loop = "copy"
    Family = "looserel"
    Tier = "quick"
    NanRule = "notconverged"
    FluxRule = "segment"
    ScanNorm = "asked"
    Reporter = "contract"
    EmitOn = FALSE
INIT Init
NEXT Next
INVARIANT AccumFails
CHECK_DEADLOCK FALSE
