------------------------------ MODULE Carousel ------------------------------
(***************************************************************************)
(* Beyond the listed properties (E01): mxlpy.carousel.Carousel builds one  *)
(* model variant per element of the cartesian product of reaction          *)
(* templates.  In terms of ModelEdit, variant i is the caller's model      *)
(* (untouched) with, for every reaction in the order given, the template's *)
(* additional parameters added and the reaction's function and arguments   *)
(* replaced (stoichiometry kept) -- i.e. an edit history folded with Eff.   *)
(* Variants are listed in product order (last reaction varies fastest) and *)
(* results of the carousel's simulations are aligned with that order.      *)
(***************************************************************************)
EXTENDS ModelEdit

\* a template: [call |-> Call(fn, args), add |-> sequence of <<name, value>>]
Tpl(cl, add) == [call |-> cl, add |-> add]

Base ==
    [EmptyContent EXCEPT
        !.vars = <<"a", "c">>,
        !.init = ("a" :> Num(2)) @@ ("c" :> Num(3)),
        !.pars = ("b" :> Num(7)),
        !.rxn  = ("r1" :> [fn |-> "mul", args |-> <<"a", "b">>, st |-> ("a" :> Num(0 - 1)) @@ ("c" :> Num(1))])
                 @@ ("r2" :> [fn |-> "id", args |-> <<"c">>, st |-> ("c" :> Num(0 - 1))])]

\* menus of variants: a sequence of <<reaction, sequence of templates>> (the caller's dict, in order)
Menu(m) ==
    CASE m = "one"    -> << <<"r1", <<Tpl(Call("mul", <<"a", "b">>), <<>>), Tpl(Call("dbl", <<"a">>), <<>>)>> >> >>
      [] m = "two"    -> << <<"r1", <<Tpl(Call("mul", <<"a", "b">>), <<>>), Tpl(Call("mad", <<"a", "b", "k">>), << <<"k", 5>> >>)>> >>,
                            <<"r2", <<Tpl(Call("id", <<"c">>), <<>>), Tpl(Call("mul", <<"c", "h">>), << <<"h", 3>> >>),
                                      Tpl(Call("two", <<>>), <<>>)>> >> >>
      [] m = "order"  -> << <<"r2", <<Tpl(Call("inc", <<"c">>), <<>>), Tpl(Call("dbl", <<"c">>), <<>>)>> >>,
                            <<"r1", <<Tpl(Call("add", <<"a", "c">>), <<>>), Tpl(Call("sub", <<"a", "b">>), <<>>)>> >> >>
      [] m = "clash"  -> \* both templates of a variant add the same parameter name: the second add is a duplicate
                         << <<"r1", <<Tpl(Call("mul", <<"a", "k">>), << <<"k", 5>> >>)>> >>,
                            <<"r2", <<Tpl(Call("mul", <<"c", "k">>), << <<"k", 3>> >>)>> >> >>
      [] m = "unknown" -> << <<"nosuch", <<Tpl(Call("two", <<>>), <<>>)>> >> >>
      [] m = "missing" -> \* a template naming a parameter it does not add: the variant exists but cannot be evaluated
                         << <<"r1", <<Tpl(Call("mul", <<"a", "zz">>), <<>>), Tpl(Call("dbl", <<"a">>), <<>>)>> >> >>

\* all choices in product order: sequences of template indices, last position fastest
RECURSIVE Choices(_, _)
Choices(menu, j) ==
    IF j > Len(menu) THEN << <<>> >>
    ELSE LET rest == Choices(menu, j + 1)
             n == Len(menu[j][2])
         IN [x \in 1..(n * Len(rest)) |-> <<((x - 1) \div Len(rest)) + 1>> \o rest[((x - 1) % Len(rest)) + 1]]

OpsOf(menu, choice) ==
    LET perRxn(j) ==
            LET t == menu[j][2][choice[j]]
            IN [i \in 1..Len(t.add) |-> [op |-> "add_parameter", n |-> t.add[i][1], v |-> Num(t.add[i][2])]]
               \o <<[op |-> "update_reaction", n |-> menu[j][1], call |-> t.call, mode |-> "both",
                     keepst |-> TRUE, st |-> Empty]>>
        RECURSIVE cat(_)
        cat(j) == IF j > Len(menu) THEN <<>> ELSE perRxn(j) \o cat(j + 1)
    IN cat(1)

VariantOf(menu, choice) == FoldOps(OpsOf(menu, choice), 1, Base)

VARIABLE menu
Menus == {"one", "two", "order", "clash", "unknown", "missing"}
CInit == menu \in Menus /\ c = Base /\ hist = <<>> /\ seed = "carousel" /\ fin = FALSE
CNext == UNCHANGED <<menu, c, hist, seed, fin>>

CPredict ==
    LET mn == Menu(menu)
        ch == Choices(mn, 1)
        vs == [x \in DOMAIN ch |-> VariantOf(mn, ch[x])]
    IN [menu |-> menu, spec |-> mn, base |-> Base, baseobs |-> Obs(Base),
        raises |-> \E x \in DOMAIN vs : ~vs[x].ok,
        variants |-> [x \in DOMAIN vs |-> [choice |-> ch[x], obs |-> Obs(vs[x].c)]]]

\* product order and size, and the caller's content never appears changed
ProductShape ==
    LET mn == Menu(menu) ch == Choices(mn, 1)
    IN /\ Len(ch) = FoldFunction(LAMBDA a, b : a * b, 1, [j \in DOMAIN mn |-> Len(mn[j][2])])
       /\ \A x, y \in DOMAIN ch : x # y => ch[x] # ch[y]

CEmit == PrintT("@J@" \o ToJson(CPredict) \o "@E@")
=============================================================================
