\* C08 mc: exhaustive BFS over a very small grammar (quick tier); theorems of the specification
CONSTANTS
    MaxVars = 1
    MaxDer = 0
    MaxRxn = 1
    MaxIap = 0
    MaxIav = 0
    MaxComps = 1
    NumLits = {2}
    Half = FALSE
    UnOn = {"neg"}
    BinOn = {"sub", "floordiv"}
    CmpOn = {"lt"}
    Chains = TRUE
    BoolOn = {}
    IteOn = TRUE
    FnOn = {"exp", "erf"}
    CallOn = TRUE
    PiOn = FALSE
    MaxDepth = 2
    MaxToks = 3
    NFormals = 2
    Schemes = {"plain", "escape"}
    Pinned = FALSE
    EmitOn = FALSE
INIT Init
NEXT Next
INVARIANT AlwaysWellFormed
INVARIANT PredicatesClosed
INVARIANT RenameInvariant
INVARIANT UntouchedZero
INVARIANT BodyAgrees
CHECK_DEADLOCK FALSE
