\* C20 gen: all counterexamples to the two laws for the two unlawful shipped losses (replayed into the real functions)
CONSTANTS
    LossNames = {"mean", "cosine_similarity"}
    Orients = {"pd", "dp"}
    N = 2
    Grid = "small"
    EmitOn = TRUE
INIT Init
NEXT Next
INVARIANT CexEmit
CHECK_DEADLOCK FALSE
