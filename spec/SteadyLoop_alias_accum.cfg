\* C15: the aliasing loop on accumulating networks: TLC must find x' = c reported as a steady state
CONSTANTS
    MaxSteps = 1000
    Loop = "alias"
    Family = "accum"
    Tier = "quick"
    NanRule = "notconverged"
    FluxRule = "segment"
    ScanNorm = "asked"
    Reporter = "contract"
    EmitOn = FALSE
INIT Init
NEXT Next
INVARIANT AccumFails
CHECK_DEADLOCK FALSE
