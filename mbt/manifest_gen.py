"""Regenerates /verif/MANIFEST.json from the table below (python -m mbt.manifest_gen)."""

from __future__ import annotations

import json
from pathlib import Path

ROOT = Path(__file__).resolve().parent.parent

TRUST = ("TLC 1.8 + CommunityModules; the harness renderer/replayer; CPython and numpy/pandas as executors; "
         "bounds of the enumeration as recorded in the evidence file")

CLAIMS: dict[str, dict] = {
    "C02": {
        "technique": "TLA+ spec (DepGraph contract + DepSort queue algorithm) model-checked by TLC; spec->code replay "
                     "of every emitted graph/order; code->spec oracle validation of random large graphs",
        "text": "TLC checks exhaustively (all graphs over 3 components x all declaration orders) that the queue "
                "algorithm refines the order-free contract and terminates; every emitted scenario is built with the "
                "real Model (components as derived/reaction/assignment/surrogate) and outcome class, missing names and "
                "values are compared with the contract's prediction; answers of the implementation on random 5-10 "
                "component graphs are judged by TLC against the same contract.",
        "design_ref": "DESIGN.md section 5, C02",
    },
    "C01": {
        "technique": "TLA+ spec (MxlModel semantics over FnLib, ModelEval shape family) checked by TLC (exhaustive small family "
                     "+ seeded -simulate rich family, five semantic theorems); spec->code replay through all eight entry points",
        "text": "The meaning of a model (saturation evaluator, static closure, stoichiometry x fluxes) is an explicit TLA+ "
                "module; TLC builds every model of a bounded family action by action and seeded random members of a rich "
                "family (chains, forward references, computed coefficients, two-output surrogate, data, time), checks "
                "order-invariance / frozen-parameter / untouched-variable theorems on each, and emits predicted tables at "
                "three states; the real Model is built in shuffled declaration order and every entry point (positional, "
                "named, fluxes, args, stoichiometries and the three time-course forms) must return those numbers.",
        "design_ref": "DESIGN.md section 5, C01",
    },
    "C13": {
        "technique": "same TLA+ specification as C01 (InitEnv / Static / Frozen operators, theorems StaticIsReachability, "
                     "FrozenIsConstant, InitConsistent checked by TLC); spec->code replay of initial conditions, derived-parameter "
                     "classification, frozen-versus-recomputed tables, Simulator default y0",
        "text": "Initial assignments on variables and parameters chained through derived quantities, rates and surrogate "
                "outputs are evaluated by the specification once at t=0; TLC proves in the bound that the static closure is "
                "graph reachability and that frozen names are constant over states; the real model must report the same "
                "initial conditions, parameter values, derived-parameter names and, at states != initial and t != 0, the "
                "same full table.",
        "design_ref": "DESIGN.md section 5, C13",
    },
}

NOT_YET = "check not built yet (planned, see DESIGN.md section 5)"


def main() -> None:
    props = [json.loads(l) for l in (ROOT / "properties.jsonl").read_text().splitlines() if l.strip()]
    findings = json.loads((ROOT / "known_findings.json").read_text())
    checks = []
    for p in props:
        pid = p["id"]
        if pid not in CLAIMS:
            continue
        c = CLAIMS[pid]
        checks.append({
            "property_id": pid,
            "quick_cmd": f"./check {pid} --tier quick",
            "thorough_cmd": f"./check {pid} --tier thorough",
            "evidence_file": f"/verif/evidence/{pid}.json",
            "replay_cmd_template": f"./check {pid} --replay {{path}}",
            "engine": "tlc-mbt",
            "level_claimed": {"category": c.get("category", "model_checking"), "text": c["text"],
                              "design_ref": c["design_ref"]},
            "level_note": c.get("note", TRUST),
            "technique": c["technique"],
        })
    na = [{"property_id": p["id"], "reason": NOT_YET} for p in props if p["id"] not in CLAIMS]
    m = {
        "version": 1,
        "setup_cmd": "./check setup",
        "hooks": {
            "guard": "MXLPY_VERIF",
            "enable": "no in-repo hooks: every observation point is a public entry point or extension point wrapped "
                      "from the harness (checks export MXLPY_VERIF=1 for uniformity)",
            "baseline_off_cmd": "cd /repo && /venv/bin/python -m pytest -ra -q -p no:cacheprovider --timeout=900 "
                                "--continue-on-collection-errors",
            "source_commits": [],
            "add_only": True,
        },
        "engines": [{"name": "tlc-mbt", "path": "/verif/check", "serves_properties": sorted(CLAIMS),
                     "kind_free_text": "explicit TLA+ specification checked by TLC (mc), scenario emission (gen), "
                                       "oracle and batched trace validation; Python replayers/recorders bind it to mxlpy"}],
        "checks": checks,
        "not_applicable": na,
        "notes": "Known findings / fixed defects: /verif/known_findings.json "
                 f"({len(findings['findings'])} entries). Exit 2 = machinery failure (never a VIOLATION).",
    }
    (ROOT / "MANIFEST.json").write_text(json.dumps(m, indent=1))
    print(f"MANIFEST: {len(checks)} claimed, {len(na)} not applicable")


if __name__ == "__main__":
    main()
