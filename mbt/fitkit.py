"""C20 helpers: rendering FitModels.tla scenarios into real mxlpy models / data, evaluating the closed
terms the specification prints for loss values, one-evaluation and recording minimisers / residuals.

Trusted numeric leaves (nothing else is decided here): Fraction -> float, sqrt, log, the final summation of
an unsummed term (TLC's integers are 32 bit), the unit ln 2 of the decaying-pool family.
"""

from __future__ import annotations

import math
from fractions import Fraction

from .tlc import MachineryError, fn_to_dict

LN2 = math.log(2.0)
CAP = 1_000_000_000

SHIPPED = ["mean", "mean_squared", "rmse", "mae", "mean_absolute_percentage", "mean_squared_logarithmic",
           "cosine_similarity"]
LAWFUL = ["mean_squared", "rmse", "mae", "mean_absolute_percentage", "mean_squared_logarithmic"]


# ---- closed terms ------------------------------------------------------------------------------------
def fr(r) -> Fraction:
    return Fraction(int(r["n"]), int(r["d"]))


def seq(x) -> list:
    """TLC prints sequences as arrays; an empty sequence as []."""
    return list(x) if isinstance(x, list) else [x[k] for k in sorted(x, key=int)]


def term_value(v) -> float | None:
    """Float value of a loss term printed by LossesCore.tla; None when the spec says 'undefined'."""
    k = v["k"]
    if k == "undef":
        return None
    if k == "ssq":
        return math.fsum(float(fr(t["c"])) * math.sqrt(float(fr(t["q"]))) for t in seq(v["ts"]))
    if k == "msum":
        s = math.fsum(float(fr(t["x"])) * (1.0 if fr(t["q"]) == 1 else math.sqrt(float(fr(t["q"])))) for t in seq(v["ts"]))
        s *= float(fr(v["c"]))
        if v["outer"] == "sqrt":
            return math.sqrt(s) if s >= 0 else float("nan")
        return s
    if k == "sqlog":
        rs = [float(fr(r)) for r in seq(v["rs"])]
        return math.fsum(math.log(r) ** 2 for r in rs) / len(rs)
    if k == "negnorms":
        if "sa" in v:
            a = math.fsum(float(fr(r)) for r in seq(v["sa"]))
            b = math.fsum(float(fr(r)) for r in seq(v["sb"]))
        else:
            a, b = float(fr(v["qa"])), float(fr(v["qb"]))
        return -math.sqrt(a) * math.sqrt(b)
    if k == "onemsqrt":
        return 1.0 - math.sqrt(float(fr(v["q"])))
    raise MachineryError(f"unknown loss term {v}")


def fvec(xs) -> list[float]:
    return [float(fr(x)) for x in seq(xs)]


# ---- models ------------------------------------------------------------------------------------------
def const(a):
    return a


def mass_action(k, x):
    return k * x


def norm_scenario(p: dict) -> dict:
    """Payload of FitModels.tla -> plain python scenario (floats are produced later, fractions kept as n/d)."""
    sc = dict(p["sc"])
    for key in ("jt", "jc", "times"):
        sc[key] = [int(x) for x in seq(sc[key])]
    for key in ("x0", "x0c", "off"):
        sc[key] = [dict(x) for x in seq(sc[key])]
    sc["srcs"] = [str(x) for x in seq(sc["srcs"])]
    sc["fitk"] = bool(sc.get("fitk", True))
    sc["prot"] = [{"dur": int(s["dur"]), "A": dict(s["A"])} for s in seq(sc["prot"])]
    return {"sc": sc, "kin": p["kin"], "As": seq(p["As"]), "data": [seq(g) for g in seq(p["data"])],
            "pred": [seq(g) for g in seq(p["pred"])], "generated": bool(p["generated"]),
            "minit": [dict(x) for x in seq(p["minit"])], "y0": [dict(x) for x in seq(p["y0"])],
            "exp": {nm: {scl: dict(e) for scl, e in fn_to_dict(by).items()} for nm, by in fn_to_dict(p["exp"]).items()}}


def build(scn: dict):
    """Real model + fit arguments for a scenario. Returns (model, kind, kwargs, p_true, p_cand)."""
    import pandas as pd
    from mxlpy import Model, make_protocol

    sc = scn["sc"]
    n = sc["n"]
    m = Model()
    kw: dict = {}
    if sc["shape"] == "ss":
        names = [f"x{i + 1}" for i in range(n)]
        m.add_variables({v: 1.0 for v in names})
        m.add_parameter("k_in", float(fr(scn["kin"])))
        for i in range(n):
            m.add_parameter(f"k{i + 1}", float(sc["jt"][i]))
        m.add_reaction("v0", const, args=["k_in"], stoichiometry={"x1": 1.0})
        for i in range(n):
            st = {names[i]: -1.0}
            if i + 1 < n:
                st[names[i + 1]] = 1.0
            m.add_reaction(f"v{i + 1}", mass_action, args=[f"k{i + 1}", names[i]], stoichiometry=st)
        kw["data"] = pd.Series({names[i]: float(fr(scn["data"][0][i])) for i in range(n)})
        p_true = {f"k{i + 1}": float(sc["jt"][i]) for i in range(n)}
        p_cand = {f"k{i + 1}": float(sc["jc"][i]) for i in range(n)}
        return m, "steady_state", kw, p_true, p_cand
    # shapes whose prediction depends on the initial values: where each variable's value comes from is part of the
    # scenario (FitModels.tla: srcs, ModelInit, Y0Val); a fitted variable is a key of p0
    names = [f"x{i + 1}" for i in range(n)]
    x0 = [float(fr(x)) for x in sc["x0"]]
    x0c = [float(fr(x)) for x in sc["x0c"]]
    minit = [float(fr(x)) for x in scn["minit"]]
    y0 = {names[i]: float(fr(v)) for i, v in enumerate(scn["y0"]) if int(v["d"]) != 0}
    if y0:
        kw["y0"] = y0
    fitted = [i for i in range(n) if sc["srcs"][i] in ("p0", "p0y0")]
    if sc["shape"] == "ssc":
        for i in range(n):
            m.add_variable(names[i], minit[i])
            m.add_parameter(f"k{i + 1}", float(sc["jt"][i]))
        m.add_reaction("v1", mass_action, args=["k1", "x1"], stoichiometry={"x1": -1.0, "x2": 1.0})
        m.add_reaction("v2", mass_action, args=["k2", "x2"], stoichiometry={"x2": -1.0, "x1": 1.0})
        kw["data"] = pd.Series({names[i]: float(fr(scn["data"][0][i])) for i in range(n)})
        p_true = {f"k{i + 1}": float(sc["jt"][i]) for i in range(n)}
        p_cand = {f"k{i + 1}": float(sc["jc"][i]) for i in range(n)}
        if not sc.get("fitk", True):          # p0 holds only initial values
            p_true, p_cand = {}, {}
        for i in fitted:
            p_true[names[i]] = x0[i]
            p_cand[names[i]] = x0c[i]
        return m, "steady_state", kw, p_true, p_cand
    for i in range(n):
        m.add_variable(names[i], minit[i])
        a_true = float(fr(scn["As"][i])) * LN2 if sc["shape"] == "tc" else float(fr(sc["prot"][0]["A"])) * LN2
        m.add_parameter(f"a{i + 1}", a_true)
        m.add_parameter(f"k{i + 1}", sc["jt"][i] * LN2)
        m.add_reaction(f"in{i + 1}", const, args=[f"a{i + 1}"], stoichiometry={names[i]: 1.0})
        m.add_reaction(f"out{i + 1}", mass_action, args=[f"k{i + 1}", names[i]], stoichiometry={names[i]: -1.0})
    times = [float(t) for t in sc["times"]]
    kw["data"] = pd.DataFrame({names[i]: [float(fr(v)) for v in scn["data"][i]] for i in range(n)}, index=times)
    p_true = {f"k{i + 1}": sc["jt"][i] * LN2 for i in range(n)}
    p_cand = {f"k{i + 1}": sc["jc"][i] * LN2 for i in range(n)}
    if not sc.get("fitk", True):              # p0 holds only initial values
        p_true, p_cand = {}, {}
    for i in fitted:
        p_true[names[i]] = x0[i]
        p_cand[names[i]] = x0c[i]
    if sc["shape"] == "ptc":
        kw["protocol"] = make_protocol([(float(s["dur"]), {"a1": float(fr(s["A"])) * LN2}) for s in sc["prot"]])
        return m, "protocol_time_course", kw, p_true, p_cand
    return m, "time_course", kw, p_true, p_cand


# ---- minimisers / recorders (public extension points only) ------------------------------------------------
class Probe:
    """A MinimizerProtocol that evaluates the residual once per given point and reports the first."""

    def __init__(self, points: list[dict], report: int = 0):
        self.points = points
        self.report = report
        self.values: list[float] = []

    def __call__(self, residual_fn, p0, bounds):
        from mxlpy.minimizers.abstract import OptimisationState
        from mxlpy.types import Result

        self.values = [float(residual_fn(dict(pt))) for pt in self.points]
        return Result(OptimisationState(parameters=dict(self.points[self.report]), residual=self.values[self.report]))


def evaluate_at(model, kind: str, kw: dict, point: dict, loss_name: str, scaled: bool, before: dict | None = None) -> float:
    """Residual at ``point`` through the public fit routine with a one-evaluation minimiser (on a copy).

    ``before``: another candidate the residual is evaluated at FIRST (same call, same working model): the residual is a
    function of the candidate, so the value at ``point`` must not remember it."""
    from mxlpy import fit
    from mxlpy.fit import losses

    pr = Probe([point]) if before is None else Probe([before, point], report=1)
    res = getattr(fit, kind)(model, p0=dict(point), minimizer=pr, loss_fn=getattr(losses, loss_name),
                             standard_scale=scaled, **kw)
    val = res.value
    if isinstance(val, Exception):
        raise val
    return float(val.loss)


def _hex(v) -> str:
    try:
        return float(v).hex()
    except (TypeError, ValueError):
        return repr(v)


def content_of(model, invalidate: bool = False) -> list[str]:
    """The caller-visible content the property speaks of, as exact strings.

    Two views: what the model STORES (raw parameters / variables) and what it COMPUTES WITH (the getters).  A model
    that built its cache before a call keeps answering the getters from the cache even if its stored content was
    changed behind its back, so the 'after' view is taken with ``invalidate=True``: a no-op edit through the public
    API (update_parameter(name, same value)) first makes the model recompute from what it stores."""
    if invalidate:
        raw = model.get_raw_parameters()
        for k, par in raw.items():
            if isinstance(par.value, (int, float)):
                model.update_parameter(k, par.value)
                break
    out = [f"rp:{k}={_hex(p.value)}" for k, p in sorted(model.get_raw_parameters().items())]
    out += [f"rv:{k}={_hex(v.initial_value)}" for k, v in sorted(model.get_raw_variables().items())]
    out += [f"p:{k}={float(v).hex()}" for k, v in sorted(model.get_parameter_values().items())]
    out += [f"v:{k}={float(v).hex()}" for k, v in sorted(model.get_initial_conditions().items())]
    return out


def micro(x: float) -> int:
    if x != x or x in (float("inf"), float("-inf")):
        return CAP
    u = round(x * 1e6)
    return max(-CAP, min(CAP, int(u)))


def event(kind: str, names: list[str], point: dict, loss: float, **extra) -> dict:
    return {"k": kind, "ps": [float(point[n]).hex() for n in names], "lh": float(loss).hex(), "lu": micro(loss), **extra}


class RecordingResidual:
    """Wraps a shipped *_residual (public residual_fn= argument): logs every evaluation."""

    def __init__(self, base, names: list[str], loss_log: list):
        self.base = base
        self.names = names
        self.events: list[dict] = []
        self.loss_log = loss_log

    def __call__(self, updates, settings):
        n0 = len(self.loss_log)
        r = self.base(updates, settings)
        lf = float(self.loss_log[-1]).hex() if len(self.loss_log) > n0 else ""
        self.events.append(event("eval", self.names, updates, float(r), lf=lf))
        return r


class RecordingLoss:
    """Wraps a shipped loss (public loss_fn= argument): logs every value it returns."""

    def __init__(self, base, log: list):
        self.base = base
        self.log = log
        self.__name__ = getattr(base, "__name__", "loss")

    def __call__(self, a, b):
        r = self.base(a, b)
        self.log.append(float(r))
        return r


# ---- joint fits (FitJoint.tla) -----------------------------------------------------------------------
def norm_joint(p: dict) -> dict:
    q = dict(p)
    q["exps"] = [dict(e) for e in seq(p["exps"])]
    q["eff"] = [dict(e) for e in seq(p["eff"])]
    q["data"] = [[seq(g) for g in seq(t)] for t in seq(p["data"])]
    q["pred"] = [[seq(g) for g in seq(t)] for t in seq(p["pred"])]
    q["exp"] = [dict(e) for e in seq(p["exp"])]
    q["times"] = [int(t) for t in seq(p["times"])]
    q["prot"] = [{"dur": int(s["dur"]), "A": dict(s["A"])} for s in seq(p["prot"])]
    return q


def _opt(r):
    """A rational or the specification's 'not given'."""
    return None if int(r["d"]) == 0 else float(fr(r))


def build_joint(js: dict, mixed: bool = False, defaults: dict | None = None):
    """Real settings list + call arguments for a FitJoint.tla scenario. Returns (routine, to_fit, kwargs, p0).

    mixed: fit.joint_mixed with MixedSettings (each carrying the shipped residual function of its kind).
    defaults: the call's shared defaults ([y0, loss] as in the payload); default: the scenario's own."""
    import pandas as pd
    from mxlpy import Model, fit, make_protocol
    from mxlpy.fit import losses, routines

    kind = js["kind"]
    stem = {"tc": "time_course", "ptc": "protocol_time_course", "ssc": "steady_state"}[kind]
    unit = 1.0 if kind == "ssc" else LN2
    to_fit = []
    for e, data in zip(js["exps"], js["data"]):
        m = Model()
        if kind == "ssc":
            m.add_variables({"x1": float(fr(e["minit"])), "x2": float(fr(js["x2"]))})
            m.add_parameters({"k1": float(js["jt"]), "k2": 1.0})
            m.add_reaction("v1", mass_action, args=["k1", "x1"], stoichiometry={"x1": -1.0, "x2": 1.0})
            m.add_reaction("v2", mass_action, args=["k2", "x2"], stoichiometry={"x2": -1.0, "x1": 1.0})
            if e.get("rich"):       # the extra drain: a second forward step with its own constant k4
                m.add_parameter("k4", float(js["j4t"]))
                m.add_reaction("v4", mass_action, args=["k4", "x1"], stoichiometry={"x1": -1.0, "x2": 1.0})
            d = pd.Series({"x1": float(fr(data[0][0])), "x2": float(fr(data[0][1]))})
        else:
            a0 = js["A"] if kind == "tc" else js["prot"][0]["A"]
            m.add_variable("x1", float(fr(e["minit"])))
            m.add_parameters({"a1": float(fr(a0)) * LN2, "k1": float(js["jt"]) * LN2})
            m.add_reaction("in1", const, args=["a1"], stoichiometry={"x1": 1.0})
            m.add_reaction("out1", mass_action, args=["k1", "x1"], stoichiometry={"x1": -1.0})
            if e.get("rich"):
                m.add_parameter("k4", float(js["j4t"]) * LN2)
                m.add_reaction("out4", mass_action, args=["k4", "x1"], stoichiometry={"x1": -1.0})
            d = pd.DataFrame({"x1": [float(fr(v)) for v in data[0]]}, index=[float(t) for t in js["times"]])
        y0 = _opt(e["y0"])
        kw = {}
        if kind == "ptc":
            kw["protocol"] = make_protocol([(float(s["dur"]), {"a1": float(fr(s["A"])) * LN2}) for s in js["prot"]])
        common = dict(model=m, data=d, y0=None if y0 is None else {"x1": y0},
                      loss_fn=None if e["loss"] == "none" else getattr(losses, e["loss"]), **kw)
        if mixed:
            to_fit.append(fit.MixedSettings(residual_fn=getattr(routines, f"{stem}_residual"), **common))
        else:
            to_fit.append(fit.FitSettings(**common))
    dflt = defaults or js["dflt"]
    y0d = _opt(dflt["y0"])
    kwargs = {"y0": None if y0d is None else {"x1": y0d}, "loss_fn": getattr(losses, dflt["loss"])}
    routine = "joint_mixed" if mixed else f"joint_{stem}"
    p0 = {"k1": float(js["jc"]) * unit}
    if js.get("anyrich"):
        p0["k4"] = float(js["j4c"]) * unit
    return routine, to_fit, kwargs, p0


def settings_view(to_fit: list) -> list:
    """What the caller wrote into the settings objects (the fields a joint routine must not touch)."""
    return [{"y0": None if s.y0 is None else dict(s.y0), "loss_fn": getattr(s.loss_fn, "__name__", None) if s.loss_fn else None,
             "integrator": None if s.integrator is None else repr(s.integrator),
             "protocol": None if s.protocol is None else s.protocol.to_json(), "data": s.data.to_json()} for s in to_fit]


# ---- ensemble / carousel fits (FitEnsemble.tla) -------------------------------------------------------
def mass_action_x2(k, x):
    """The mis-specified member: twice the rate."""
    return 2.0 * k * x


def doubled_steady_state(updates, settings):
    from mxlpy.fit.routines import steady_state_residual

    return 2.0 * steady_state_residual(updates, settings)


def doubled_time_course(updates, settings):
    from mxlpy.fit.routines import time_course_residual

    return 2.0 * time_course_residual(updates, settings)


def doubled_protocol_time_course(updates, settings):
    from mxlpy.fit.routines import protocol_time_course_residual

    return 2.0 * protocol_time_course_residual(updates, settings)


def norm_ensemble(p: dict) -> dict:
    q = dict(p)
    q["mem"] = [int(m) for m in seq(p["mem"])]
    q["data"] = [seq(g) for g in seq(p["data"])]
    q["pred"] = [[seq(g) for g in seq(t)] for t in seq(p["pred"])]
    q["exp"] = [dict(e) for e in seq(p["exp"])]
    q["times"] = [int(t) for t in seq(p["times"])]
    q["prot"] = [{"dur": int(s["dur"]), "A": dict(s["A"])} for s in seq(p["prot"])]
    return q


def build_ensemble(es: dict, as_carousel: bool):
    """Real arguments for a FitEnsemble.tla scenario. Returns (routine name, first argument, kwargs, p0)."""
    import pandas as pd
    from mxlpy import Model, make_protocol
    from mxlpy.carousel import Carousel, ReactionTemplate
    from mxlpy.fit import losses

    kind, opt = es["kind"], es["opt"]
    fns = {1: mass_action, 2: mass_action_x2}

    def member(mult: int) -> Model:
        m = Model()
        if kind == "ssc":
            m.add_variables({"x1": float(fr(opt["minit"])), "x2": float(fr(es["x2"]))})
            m.add_parameters({"k1": float(es["jt"]), "k2": 1.0})
            m.add_reaction("dec", fns[mult], args=["k1", "x1"], stoichiometry={"x1": -1.0, "x2": 1.0})
            m.add_reaction("v2", mass_action, args=["k2", "x2"], stoichiometry={"x2": -1.0, "x1": 1.0})
        else:
            a0 = es["A"] if kind == "tc" else es["prot"][0]["A"]
            m.add_variable("x1", float(fr(opt["minit"])))
            m.add_parameters({"a1": float(fr(a0)) * LN2, "k1": float(es["jt"]) * LN2})
            m.add_reaction("in1", const, args=["a1"], stoichiometry={"x1": 1.0})
            m.add_reaction("dec", fns[mult], args=["k1", "x1"], stoichiometry={"x1": -1.0})
        return m

    if kind == "ssc":
        data = pd.Series({"x1": float(fr(es["data"][0][0])), "x2": float(fr(es["data"][0][1]))})
    else:
        data = pd.DataFrame({"x1": [float(fr(v)) for v in es["data"][0]]}, index=[float(t) for t in es["times"]])
    stem = {"tc": "time_course", "ptc": "protocol_time_course", "ssc": "steady_state"}[kind]
    y0 = _opt(opt["y0"])
    kwargs = {"data": data, "loss_fn": getattr(losses, opt["loss"]), "y0": None if y0 is None else {"x1": y0}}
    if opt["resid"] == "doubled":
        kwargs["residual_fn"] = globals()[f"doubled_{stem}"]
    if kind == "ptc":
        kwargs["protocol"] = make_protocol([(float(s["dur"]), {"a1": float(fr(s["A"])) * LN2}) for s in es["prot"]])
    p0 = {"k1": float(es["jc"]) * (1.0 if kind == "ssc" else LN2)}
    if as_carousel:
        first = Carousel(member(1), {"dec": [ReactionTemplate(fn=fns[m], args=["k1", "x1"]) for m in es["mem"]]})
        return f"carousel_{stem}", first, kwargs, p0
    return f"ensemble_{stem}", [member(m) for m in es["mem"]], kwargs, p0
