\* C04: every call history of depth 2 over the full menu continuing a twice-overridden simulator (WarmH, 4 calls)
CONSTANTS
    Depth = 6
    EmitOn = TRUE
    Variant = "contract"
    MenuName = "c04warm"
INIT Init
NEXT Next
INVARIANT AxisIncreasing
INVARIANT RefusalIff
INVARIANT PointsOnce
INVARIANT SegChain
INVARIANT NowIsLast
INVARIANT Bystander
INVARIANT StepIntervals
INVARIANT ProtocolIsComposition
INVARIANT FailedFrozen
INVARIANT Emit
CHECK_DEADLOCK FALSE
