\* C18 procedure machine: closed loop (state-dependent steady state), sequential: every property holds
CONSTANTS
    Mode = "seq"
    RestorePars = TRUE
    RestoreY0 = TRUE
    Cyclic = TRUE
    EarlyRestoreY0 = FALSE
INIT Init
NEXT Next
INVARIANT ParsRestored
INVARIANT InitsRestored
INVARIANT ResultsRight
INVARIANT ParNeverTouches
CHECK_DEADLOCK FALSE
