\* C18: theorems + coefficient tables on the middle grid (3 values per symbol), theorems only
CONSTANTS
    Nets = {"chain2", "branch", "rev", "sgn", "cycle", "ia", "iac", "ipar", "pl"}
    Grid = "mid"
    EmitOn = FALSE
INIT Init
NEXT Next
INVARIANT ScaledIsOrder
INVARIANT QuotExact
INVARIANT SteadyIsSteady
INVARIANT Summation
INVARIANT QuotNearD
INVARIANT TotalDiffers
INVARIANT InitIsState
INVARIANT MSameState
INVARIANT MDiffers
INVARIANT SignedWitness
INVARIANT Homogeneous
INVARIANT Witness
INVARIANT Emit
CHECK_DEADLOCK FALSE
