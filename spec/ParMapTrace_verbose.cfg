\* C09: trace validation (property instance; rows may be taken in any order because log time stamps of
\* different processes race)
CONSTANTS
    Ns = {1}
    Ws = {1}
    Modes = {"seq"}
    Variants = {"plain"}
    ColSets = {{"k"}}
    Kinds = {"time_course"}
    FailModes = {"intfail"}
    LabelSchemes = {"shuffled"}
    KeyedByLabel = FALSE
    NameSchemes = {"plain"}
    Y0s = {0}
    Y0Again = FALSE
    MaxDur = 1
    SharedInSeq = FALSE
    Timed = FALSE
    Fifo = FALSE
    EmitOn = FALSE
    Verbose = TRUE
INIT TInit
NEXT TNext
INVARIANT Accept
INVARIANT Progress2
CHECK_DEADLOCK FALSE
