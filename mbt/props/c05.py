"""C05 -- isotopomer expansion (mxlpy.label_map.LabelMapper) preserves base structure, totals and dynamics.

spec      : spec/LabelExpand.tla (set-theoretic definition of the expansion, no variables),
            spec/LabelExpandMC.tla (case family built by actions + theorems + emission),
            spec/LabelExpandOracle.tla (code -> spec)
TLC (mc)  : on every finished case: 2^S isotopomer reactions per mapped reaction (CountRule), one isotopomer per
            unit of base stoichiometry (UnitRule), atom conservation (AtomRule), sum over isotopomers of the
            labelled derivative = base derivative at the totals at 4 integer states (SumRule), placement keeps
            totals (InitRule), rejection <=> map shorter than the substrates' atoms (ThReject); the
            implementation-shaped instance ArgMode="last" must be rejected by TLC (teeth)
spec->code: every emitted case is rendered as a real base Model, LabelMapper(...).build_model(initial_labels)
            is run, and get_raw_reactions (names, stoichiometry, arguments), get_initial_conditions and
            get_right_hand_side at the 4 states must equal the specification's integers
code->spec: the documentation's TPI/aldolase example and random mass-action networks are expanded by the real
            code; TLC (LabelExpandOracle) accepts or rejects each record
"""

from __future__ import annotations

import json
import random
import zlib

from .. import labelkit as lk
from ..core import Ctx, Report, pmap
from ..tlc import MachineryError, fn_to_dict

NET_TPLS = ["binet", "splitnet"]
PRODARG_TPLS = ["prodarg"]                                 # a mapped reaction whose rate reads its own tracked product
FRAC_TPLS = ["frac"]                                       # unmapped bystander with non-integer coefficients
THREE_TPLS = ["tri3", "split3", "homo3", "trimer"]        # three units of base stoichiometry on one side
ALL_TPLS = ["uni", "bi", "split", "influx", "efflux", "rev", "homo", "dimer", "cof", "byst", "der", "chain"]

CFG = """CONSTANTS
    Tpls = {tpls}
    Ords = {ords}
    MaxNL = {maxnl}
    MaxL = {maxl}
    ShortMaps = {short}
    InitAll = {initall}
    ArgMode = "{mode}"
    EmitOn = {emit}
INIT Init
NEXT Next
INVARIANT ThCount
INVARIANT ThUnit
INVARIANT ThAtom
INVARIANT ThSum
INVARIANT ThInit
INVARIANT ThReject
INVARIANT ThDen
{emitinv}
CHECK_DEADLOCK FALSE
"""


SESSION_CFG = """CONSTANTS
    MaxNL = {maxnl}
    MaxSets = {maxsets}
    Styles = {styles}
    Memo = FALSE
    EmitOn = TRUE
INIT Init
NEXT Next
INVARIANT Faithful
INVARIANT FieldsStable
INVARIANT Closed
INVARIANT Emit
CHECK_DEADLOCK FALSE
"""


def cfg_text(tpls, maxnl, maxl, short=True, initall=False, mode="occurrence", emit=True, ords=("std",)) -> str:
    return CFG.format(ords="{" + ", ".join(f'"{o}"' for o in ords) + "}", tpls="{" + ", ".join(f'"{t}"' for t in tpls) + "}", maxnl=maxnl, maxl=maxl,
                      short="TRUE" if short else "FALSE", initall="TRUE" if initall else "FALSE", mode=mode,
                      emit="TRUE" if emit else "FALSE", emitinv="INVARIANT Emit" if emit else "")


# ---- spec -> code ----------------------------------------------------------------------------------------
def _seed_of(scn: dict) -> int:
    return zlib.crc32(json.dumps(scn["b"], sort_keys=True).encode())


def observe(scn: dict) -> dict:
    """Render the base model, expand it with the real LabelMapper, read the observables."""
    from mxlpy import LabelMapper

    b = lk.norm_b(scn["b"])
    rnd = random.Random(_seed_of(scn))
    base = lk.build_base(b, rnd)
    il = lk.initial_labels(scn.get("req", {}))
    mapper = LabelMapper(base, label_variables=lk.label_variables(b), label_maps=lk.label_maps(b))
    return observe_built(scn, base, mapper, il)


def observe_built(scn: dict, base, mapper, il: dict) -> dict:
    """Call build_model on the (possibly already used) mapper and read the observables of the labelled model."""
    try:
        lm = mapper.build_model(initial_labels=il if il else None)
    except Exception as e:  # noqa: BLE001  (the statement says "rejected", not which exception)
        return {"outcome": "rejected", "exc": type(e).__name__, "message": str(e)[:200]}
    obs = {"outcome": "ok", "rxns": lk.raw_reactions(lm)}
    try:
        obs["init"] = {k: float(v) for k, v in lm.get_initial_conditions().items()}
        obs["pts"] = []
        for pt in scn.get("pts", []):
            y = {k: float(v) for k, v in fn_to_dict(pt["y"]).items()}
            dy = lm.get_right_hand_side(y)
            tot = {k: float(v) for k, v in fn_to_dict(pt["tot"]).items()}
            bdy = base.get_right_hand_side(tot)
            obs["pts"].append({"dy": {k: float(v) for k, v in dy.to_dict().items()},
                               "base": {k: float(v) for k, v in bdy.to_dict().items()}})
        for pr in scn.get("probe", []):
            y = {k: float(v) for k, v in fn_to_dict(pr["y"]).items()}
            obs["probe_dy"] = {k: float(v) for k, v in lm.get_right_hand_side(y).to_dict().items()}
    except Exception as e:  # noqa: BLE001
        obs["error"] = f"{type(e).__name__}: {str(e)[:200]}"
    return obs


def _cmp_num(exp: dict, got: dict, what: str) -> dict | None:
    if set(exp) != set(got):
        return {"what": what, "missing": sorted(set(exp) - set(got)), "unexpected": sorted(set(got) - set(exp))}
    for k, v in exp.items():
        if abs(float(got[k]) - float(v)) > 1e-9 * max(1.0, abs(float(v))):
            return {"what": what, "name": k, "expected": v, "observed": got[k]}
    return None


def judge(scn: dict, obs: dict) -> dict | None:
    """None = the implementation shows what the specification predicts."""
    if scn["outcome"] == "rejected":
        if obs["outcome"] != "rejected":
            return {"what": "outcome", "expected": "rejected", "observed": "accepted"}
        return None
    if obs["outcome"] != "ok":
        return {"what": "outcome", "expected": "ok", "observed": obs}
    exp_rxns = {r["name"]: r for r in scn["rxns"]}
    got = obs["rxns"]
    if set(exp_rxns) != set(got):
        return {"what": "reaction names", "missing": sorted(set(exp_rxns) - set(got))[:8],
                "unexpected": sorted(set(got) - set(exp_rxns))[:8]}
    dens = {r["name"]: int(r.get("den", 1)) for r in scn["b"]["rxns"] if not r["mapped"]}
    for name, r in exp_rxns.items():
        st = {k: (v if dens.get(name, 1) == 1 else v / dens[name]) for k, v in fn_to_dict(r["st"]).items() if v != 0}
        if st != got[name]["st"]:
            return {"what": "stoichiometry", "reaction": name, "expected": st, "observed": got[name]["st"]}
        exp_args, got_args = list(r["args"]), got[name]["args"]
        ok_args = len(exp_args) == len(got_args) and all(
            (g == e) if not e.startswith("?") else g.startswith(e[1:] + "__") for e, g in zip(exp_args, got_args))
        if not ok_args:
            return {"what": "arguments", "reaction": name, "expected": exp_args, "observed": got_args}
    if "error" in obs:
        return {"what": "evaluation", "observed": obs["error"]}
    bad = _cmp_num(fn_to_dict(scn["init"]), obs["init"], "initial conditions")
    if bad:
        return bad
    for pr in scn.get("probe", []):
        if pr["balanced"] and abs(sum(obs["probe_dy"].values())) > 1e-9:
            return {"what": "right-hand side: total amount not conserved by 1:1 reactions", "observed": obs["probe_dy"]}
    for j, (pt, o) in enumerate(zip(scn["pts"], obs["pts"])):
        bad = _cmp_num(fn_to_dict(pt["dy"]), o["dy"], f"right-hand side at state {j + 1}")
        if bad:
            bad["y"] = fn_to_dict(pt["y"])
            return bad
    return None


def base_crosscheck(scn: dict, obs: dict) -> str | None:
    """The rendered BASE model must have the derivative the specification assigns to the base content
    (otherwise renderer or specification are wrong: machinery, not a verdict)."""
    if scn["outcome"] != "ok" or obs.get("outcome") != "ok" or "pts" not in obs:
        return None
    for pt, o in zip(scn["pts"], obs["pts"]):
        bad = _cmp_num(fn_to_dict(pt["base"]), o["base"], "base rhs")
        if bad:
            return json.dumps(bad)
    return None


# ---- sessions on one mapper object (spec/LabelExpandSession.tla) ------------------------------------------------
def replay_session(sess: dict) -> dict | None:
    """Drive ONE real LabelMapper along the session; after every build compare with the expansion of the fields the
    specification holds at that point.  None = conforms."""
    from mxlpy import LabelMapper

    steps = sess["steps"]
    last_build = next(st for st in reversed(steps) if st["op"]["k"] == "build")
    base = lk.build_base(lk.norm_b(last_build["out"]["b"]), None)        # the base model does not depend on the fields
    f0 = steps[0]                                                          # the first operation leaves the fields as they are
    mapper = LabelMapper(base, label_variables={c: int(n) for c, n in fn_to_dict(f0["fields"]).items()},
                         label_maps={r: [int(x) for x in m] for r, m in fn_to_dict(f0["maps"]).items()})
    handed = None
    for j, st in enumerate(steps):
        op = st["op"]
        k = op["k"]
        fields = {c: int(n) for c, n in fn_to_dict(st["fields"]).items()}
        maps = {r: [int(x) for x in m] for r, m in fn_to_dict(st["maps"]).items()}
        if k == "build":
            exp = st["out"]
            obs = observe_built(exp, base, mapper, lk.initial_labels(exp.get("req", {})))
            bad = judge(exp, obs)
            if bad is not None:
                return {"step": j + 1, "history": [x["op"] for x in steps[: j + 1]], "fields": fields, **bad}
        elif k == "get":
            handed = mapper.get_isotopomers()
        elif k == "tamper":
            if handed:
                handed.pop(next(iter(handed)))
            for v in (handed or {}).values():
                v.append("junk")
            if handed is not None:
                handed["ZZ"] = ["ZZ__0", "ZZ__1"]
        elif k in ("set", "style"):
            if op["how"] == "inplace":
                if k == "set":
                    if int(op["n"]) == 0:
                        del mapper.label_variables[op["c"]]
                    else:
                        mapper.label_variables[op["c"]] = int(op["n"])
                for r in list(mapper.label_maps):
                    if r not in maps:
                        del mapper.label_maps[r]
                for r, m in maps.items():
                    mapper.label_maps[r] = m
            else:
                mapper.label_variables = dict(fields)
                mapper.label_maps = dict(maps)
            if dict(mapper.label_variables) != fields:
                raise MachineryError(f"replayer and specification disagree on the fields after {op}")
        else:
            raise MachineryError(f"unknown session operation {op}")
    return None


def _work_session(sess: dict):
    try:
        return replay_session(sess), None
    except Exception:  # noqa: BLE001
        import traceback

        return None, "harness exception:\n" + traceback.format_exc()[-1500:]


def classify(scn: dict, detail: dict) -> str | None:
    """Finding key from the shape of the failing case."""
    b = lk.norm_b(scn["b"])
    labelled = {c for c, n in b["nl"].items() if int(n) > 0}
    for r in b["rxns"]:
        if not r["mapped"]:
            continue
        for c in set(r["subs"]):
            if c in labelled and r["subs"].count(c) >= 2 and c in r["args"]:
                if detail.get("what", "").startswith(("arguments", "right-hand side")):
                    return "repeated-substrate"
    return None


def _work(scn: dict):
    try:
        obs = observe(scn)
        return judge(scn, obs), base_crosscheck(scn, obs)
    except Exception:  # noqa: BLE001  (never let an exception object travel through the pool: unpicklable ones hang it)
        import traceback

        return None, "harness exception:\n" + traceback.format_exc()[-1500:]


def nontrivial(scn: dict) -> bool:
    """A case is non-trivial when some mapped reaction has a map that is not the identity prefix."""
    for r in scn["b"]["rxns"]:
        if r["mapped"] and list(r["map"]) != list(range(len(r["map"]))):
            return True
    return False


def doubled_case(scn: dict) -> bool:
    """An accepted case in which a mapped reaction consumes or produces the same compound twice and that compound has
    >= 2 label positions (unit-major vs position-major numbering of a reaction side's atoms)."""
    if scn["outcome"] != "ok":
        return False
    b = scn["b"]
    nl = fn_to_dict(b["nl"])
    return any(r["mapped"] and side.count(c) >= 2 and int(nl[c]) >= 2
               for r in b["rxns"] for side in (r["subs"], r["prods"]) for c in set(side))


def case_key(scn: dict) -> str:
    return json.dumps([scn.get("ord"), scn["b"]["nl"], [[r["name"], r["map"]] for r in scn["b"]["rxns"]], scn.get("req")], sort_keys=True)


# ---- code -> spec ----------------------------------------------------------------------------------------
POINT_TABS = [[2, 3, 5, 1, 4, 0, 6, 1], [1, 0, 2, 7, 3, 3, 0, 5]]


def content_of_model(model, nl: dict, maps: dict, pars: dict, init: dict) -> dict:
    """Base content of a real model in the specification's vocabulary (mass-action rates only)."""
    rxns = []
    for name, rxn in model.get_raw_reactions().items():
        subs, prods = [], []
        for k, v in rxn.stoichiometry.items():
            if v < 0:
                subs += [k] * int(-v)
            else:
                prods += [k] * int(v)
        rxns.append({"name": name, "subs": subs, "prods": prods, "args": list(rxn.args),
                     "mapped": name in maps, "map": list(maps.get(name, []))})
    cpds = list(model.get_initial_conditions())
    return {"cpds": cpds, "nl": {c: int(nl.get(c, 0)) for c in cpds}, "init": init, "pars": pars, "der": {}, "rxns": rxns}


def _observe_model(cid, model, nl, maps, req) -> dict:
    """Expand a real (integer-valued, mass-action) model with the real mapper and record everything."""
    from mxlpy import LabelMapper

    pars = {k: int(v) for k, v in model.get_parameter_values().items()}
    init = {k: int(v) for k, v in model.get_initial_conditions().items()}
    b = content_of_model(model, nl, maps, pars, init)
    il = lk.initial_labels(req)
    case = {"id": cid, "b": b, "req": req}
    try:
        lm = LabelMapper(model, label_variables={c: n for c, n in nl.items() if n > 0}, label_maps=maps).build_model(
            initial_labels=il if il else None)
    except Exception as e:  # noqa: BLE001
        case["obs"] = {"outcome": "rejected", "rxns": [], "init": {}, "pts": [], "exc": type(e).__name__}
        return case
    rx = [{"name": n, "st": r["st"], "args": r["args"]} for n, r in lk.raw_reactions(lm).items()]
    try:
        names = list(lm.get_initial_conditions())
        dys = []
        for tab in POINT_TABS:
            y = {n: tab[(3 * j + len(n)) % len(tab)] for j, n in enumerate(names)}
            dys.append((y, lm.get_right_hand_side({k: float(v) for k, v in y.items()}).to_dict()))
    except Exception as e:  # noqa: BLE001  (the labelled model cannot be evaluated: recorded, TLC rejects the record)
        case["obs"] = {"outcome": "unusable", "rxns": rx, "init": {}, "pts": [], "exc": f"{type(e).__name__}: {str(e)[:200]}"}
        return case
    pts = []
    for y, dy in dys:
        vals = {k: float(v) for k, v in dy.items()}
        # integer-valued model: the derivative is an integer; anything else is passed on as a value the
        # specification cannot produce, so that TLC rejects the record
        pts.append({"y": y, "dy": {k: (int(round(v)) if abs(v - round(v)) <= 1e-6 else 10**8 + int(v)) for k, v in vals.items()}})
    ini = lm.get_initial_conditions()
    case["obs"] = {"outcome": "ok", "rxns": rx, "pts": pts,
                   "init": {k: (int(round(float(v))) if abs(float(v) - round(float(v))) <= 1e-6 else 10**8) for k, v in ini.items()}}
    return case


def doc_example_cases() -> list[dict]:
    """The TPI/aldolase example of docs/label-models.ipynb (structure as shipped; parameters and initial
    amounts replaced by small integers so that TLC's integer arithmetic decides the numbers)."""
    from example_models import get_tpi_ald_model

    out = []
    nl = {"GAP": 3, "DHAP": 3, "FBP": 6}
    maps = {"TPIf": [2, 1, 0], "TPIr": [2, 1, 0], "ALDf": [0, 1, 2, 3, 4, 5], "ALDr": [0, 1, 2, 3, 4, 5]}
    for cid, req in (("doc-tpi-ald/GAP:0", {"GAP": {"k": "int", "ps": [0]}}),
                     ("doc-tpi-ald/none", {}),
                     ("doc-tpi-ald/FBP:[0,5]", {"FBP": {"k": "list", "ps": [0, 5]}})):
        m = get_tpi_ald_model()
        m.update_parameters({"kf_TPI": 2, "Keq_TPI": 1, "kf_Ald": 3, "Keq_Ald": 1, "kr_TPI": 5, "kr_Ald": 1})
        m.update_variables({"GAP": 3, "DHAP": 4, "FBP": 2})
        out.append(_observe_model(cid, m, nl, maps, req))
    return out


def random_case(args) -> dict:
    try:
        return _random_case(args)
    except Exception:  # noqa: BLE001  (see _work)
        import traceback

        return {"id": args[1], "harness_exception": traceback.format_exc()[-1500:]}


def _random_case(args) -> dict:
    """A random mass-action network, random label counts, random proper (or too short) maps."""
    from mxlpy import Model

    seed, cid = args
    rnd = random.Random(seed)
    cpds = ["A", "B", "C", "D"][: rnd.randint(2, 4)]
    nl = {c: rnd.choice([0, 1, 1, 2, 2, 3]) for c in cpds}
    if not any(nl.values()):
        nl[cpds[0]] = 2
    m = Model()
    m.add_variables({c: rnd.randint(1, 6) for c in cpds})
    pars = {f"k{j}": rnd.randint(1, 4) for j in range(1, 4)}
    m.add_parameters(pars)
    maps = {}
    for j in range(1, rnd.randint(1, 3) + 1):
        for _attempt in range(20):
            ns, np_ = rnd.choice([(0, 1), (1, 0), (1, 1), (1, 1), (1, 2), (2, 1), (2, 1), (2, 2)])
            pool = cpds[:]
            rnd.shuffle(pool)
            if ns + np_ > len(pool) + 1:
                continue
            st = {}
            subs, prods = [], []
            # 2 X -> ... (same compound twice) with probability 1/4 when two substrates are asked for
            if ns == 2 and rnd.random() < 0.25:
                c = pool.pop()
                st[c] = -2
                subs = [c, c]
            else:
                for _ in range(ns):
                    c = pool.pop()
                    st[c] = -1
                    subs.append(c)
            if len(pool) < np_:
                continue
            if np_ == 2 and rnd.random() < 0.25:
                c = pool.pop()
                st[c] = 2
                prods = [c, c]
            else:
                for _ in range(np_):
                    c = pool.pop()
                    st[c] = 1
                    prods.append(c)
            S = sum(nl[c] for c in subs)
            P = sum(nl[c] for c in prods)
            if S > 5 or max(S, P) > 6:
                continue
            items = list(st.items())
            # substrates and products interleave freely in the dict; their relative order is kept by unpacking
            rnd.shuffle(items)
            args_ = subs + [f"k{j}"]
            rnd.shuffle(args_)
            m.add_reaction(f"v{j}", lk.PROD[len(args_)], args=args_, stoichiometry=dict(items))
            mapped = S + P > 0 and rnd.random() < 0.85
            touches_labelled = any(nl[c] > 0 for c in subs + prods)
            if not mapped and touches_labelled:
                mapped = True  # an unmapped reaction on a labelled compound is outside the statement
            if mapped:
                L = max(S, P)
                if S > 0 and rnd.random() < 0.08:
                    maps[f"v{j}"] = [rnd.randrange(L) for _ in range(rnd.randrange(S))]
                else:
                    maps[f"v{j}"] = [rnd.randrange(L) for _ in range(L)]
            break
    req = {}
    for c in cpds:
        if nl[c] > 0 and rnd.random() < 0.5:
            if rnd.random() < 0.5:
                req[c] = {"k": "int", "ps": [rnd.randrange(nl[c])]}
            else:
                req[c] = {"k": "list", "ps": sorted(rnd.sample(range(nl[c]), rnd.randint(0, nl[c])))}
    case = _observe_model(cid, m, nl, maps, req)
    case["seed"] = seed
    return case


# ---- the check -------------------------------------------------------------------------------------------
def tlc_families(ctx: Ctx, rep: Report, fams: list[dict]) -> list[dict]:
    """Run several TLC case families side by side (each BFS alone does not keep 16 cores busy)."""
    from concurrent.futures import ThreadPoolExecutor

    def one(f: dict):
        f = dict(f)
        name, what = f.pop("name"), f.pop("what")
        sim, depth = f.pop("simulate", None), f.pop("depth", None)
        cfg = ctx.write_cfg(f"{name}.cfg", cfg_text(**f))
        extra = {"simulate": sim, "depth": depth or 60, "seed": ctx.seed} if sim else {}
        return name, what, ctx.tlc("LabelExpandMC.tla", str(cfg), tag=name, workers=2, jvm=["-Xmx4g"], **extra)

    with ThreadPoolExecutor(max_workers=min(4, len(fams))) as ex:      # (4 JVMs x 2 workers, each capped at 4 GB)
        results = list(ex.map(one, fams))
    out = []
    for name, what, res in results:
        rep.add_tlc(res, what)
        if not res.payloads:
            raise MachineryError(f"no cases emitted by {name}")
        out += res.payloads
    return out


def run(ctx: Ctx) -> int:
    rep = Report(ctx)
    rep.rule = ("one case = (base model template, label counts, one atom-transition map per mapped reaction, "
                "initial-label request) observed at 4 integer isotopomer states; non-trivial = some map is not "
                "the identity; distinct by (label counts, maps, request)")
    rep.assumptions = [
        "rates are products of their arguments (mass action, optionally with a derived quantity as factor); "
        "stoichiometric coefficients are integers (both label mappers require them)",
        "maps have exactly max(S, P) entries in 0..max(S,P)-1 (the domain on which the statement defines the "
        "expansion) or fewer than S entries (must be rejected); unmapped reactions touch only unlabelled compounds",
    ]
    # ---- teeth: the implementation-shaped argument renaming is rejected by TLC -----------------------------
    pinned = ctx.tlc("LabelExpandMC.tla", "LabelExpand_pinned.cfg", expect_violation=True, workers=4)
    if pinned.violated != "ThSum":
        raise MachineryError("ArgMode=\"last\" (dict-keyed argument renaming of the pinned commit) should violate "
                             f"ThSum on 2A -> B; TLC said {pinned.violated!r}: the specification has lost its teeth")
    rep.notes["pinned_shape_counterexample"] = "TLC: ThSum violated for ArgMode=last on template homo (2 A -> B)"
    # ---- mc + gen ------------------------------------------------------------------------------------------
    if ctx.quick:
        fams = [
            dict(name="all_nl2", what="exhaustive: 12 templates, label counts 1..2, all maps with max(S,P)<=4, short maps, "
                 "theorems + emission", tpls=ALL_TPLS, maxnl=2, maxl=4),
            dict(name="uni_nl3", what="exhaustive: A->B, efflux, influx, counts 1..3, all 27 maps (3-cycles)",
                 tpls=["uni", "efflux", "influx"], maxnl=3, maxl=3),
            dict(name="init_all", what="exhaustive: every initial-label request combination (A+B->C, counts 1..2)",
                 tpls=["bi"], maxnl=2, maxl=2, short=False, initall=True),
            dict(name="deep", what="seeded simulation: all templates, counts 1..3, max(S,P)<=6",
                 tpls=ALL_TPLS, maxnl=3, maxl=6, simulate="num=90", depth=60),
            # order of the compounds inside a stoichiometry dict and declaration order of variables / reactions as explicit
            # dimensions (B + A -> C written against the variable order A, B, C: positions are counted along B first)
            dict(name="orders", what="exhaustive: A+B->C, A->B+C, cofactor, chain and fractional-bystander templates in the presentation orders swap / "
                 "swaprev, label counts 1..2, all maps with max(S,P)<=3",
                 tpls=["bi", "split", "cof", "chain"] + FRAC_TPLS, maxnl=2, maxl=3, short=False, ords=("swap", "swaprev")),
            dict(name="three", what="exhaustive: three units on one side (A+B+C->D, A->B+C+D, 2A+B->C with non-adjacent mentions, A->3B), "
                 "label counts 1..2, all maps with max(S,P)<=3, short maps",
                 tpls=THREE_TPLS + FRAC_TPLS + PRODARG_TPLS, maxnl=2, maxl=3),
            # atom counts that do not balance with two compounds on the affected side (A(1)+B(1)->C(3): external positions
            # appended after two substrates; A(3)->B(1)+C(1): the map is longer than the products' atoms)
            dict(name="uneven", what="exhaustive: A+B->C, A->B+C, cofactor template, label counts 1..3, all maps with max(S,P)<=3",
                 tpls=["bi", "split", "cof"], maxnl=3, maxl=3, short=False),
            dict(name="orders_net", what="exhaustive: merge and split inside a network (0->A, 0->B, A+B->C->0; 0->A->B+C, B->0, C->0) whose "
                 "other reactions introduce the compounds first, all four presentation orders, label counts 1..2, all maps max(S,P)<=2",
                 tpls=NET_TPLS, maxnl=2, maxl=2, short=False, ords=("std", "swap", "rev", "swaprev")),
        ]
    else:
        heavy = ["chain"]      # three mapped reactions: the maps multiply
        fams = [
            dict(name="all_nl3", what="exhaustive: 11 templates, label counts 1..3, all maps with max(S,P)<=4, short maps, "
                 "theorems + emission", tpls=[t for t in ALL_TPLS if t not in heavy], maxnl=3, maxl=4),
            dict(name="chain_nl2", what="exhaustive: 0->A->B->0 (three mapped reactions), label counts 1..2, all maps, short maps",
                 tpls=heavy, maxnl=2, maxl=4),
            dict(name="init_all", what="exhaustive: every initial-label request combination (A->B, A->0, counts 1..3; A+B->C counts 1..2)",
                 tpls=["uni", "efflux"], maxnl=3, maxl=3, short=False, initall=True),
            dict(name="init_bi", what="exhaustive: every initial-label request combination (A+B->C, counts 1..2)",
                 tpls=["bi"], maxnl=2, maxl=2, short=False, initall=True),
            dict(name="deep", what="seeded simulation: all templates, counts 1..3, max(S,P)<=6",
                 tpls=ALL_TPLS, maxnl=3, maxl=6, simulate="num=1000", depth=60),
            dict(name="orders", what="exhaustive: every template except chain in the presentation orders swap / rev / swaprev, label "
                 "counts 1..2, all maps with max(S,P)<=4",
                 tpls=[t for t in ALL_TPLS if t not in heavy], maxnl=2, maxl=4, short=False, ords=("swap", "rev", "swaprev")),
            dict(name="three", what="exhaustive: three units on one side (A+B+C->D, A->B+C+D, 2A+B->C with non-adjacent mentions, A->3B), "
                 "label counts 1..2, all maps with max(S,P)<=4, short maps",
                 tpls=THREE_TPLS + FRAC_TPLS + PRODARG_TPLS, maxnl=3, maxl=4),
            dict(name="orders_net", what="exhaustive: merge and split inside a network whose other reactions introduce the compounds "
                 "first, all four presentation orders, label counts 1..2, all maps max(S,P)<=3",
                 tpls=NET_TPLS, maxnl=2, maxl=3, short=False, ords=("std", "swap", "rev", "swaprev")),
        ]
    scns = tlc_families(ctx, rep, fams)
    rep.exhaustive = True
    # de-duplicate (simulation re-emits cases of the exhaustive families)
    seen, uniq = set(), []
    for s in scns:
        k = (s["tpl"], case_key(s))
        if k not in seen:
            seen.add(k)
            uniq.append(s)
    scns = uniq
    if len(scns) < (2000 if ctx.quick else 15000):
        raise MachineryError(f"only {len(scns)} cases emitted")
    n_rej = sum(1 for s in scns if s["outcome"] == "rejected")
    if n_rej == 0 or n_rej == len(scns):
        raise MachineryError("the case family does not contain both accepted and rejected maps")
    n_dbl = sum(1 for s in scns if doubled_case(s))
    if n_dbl < 100:
        raise MachineryError(f"only {n_dbl} cases with a doubled compound that has >= 2 label positions")
    n_ord = sum(1 for s in scns if s["outcome"] == "ok" and s.get("ord") in ("swap", "swaprev") and s["tpl"] in ("bi", "split", "binet", "splitnet"))
    if n_ord < 100:
        raise MachineryError(f"only {n_ord} merge/split cases whose compounds are written against the declaration order")
    rep.notes["cases"] = {"total": len(scns), "rejected_expected": n_rej, "doubled_multi_position": n_dbl,
                          "merge_split_against_declaration_order": n_ord,
                          "by_template": {t: sum(1 for s in scns if s["tpl"] == t) for t in ALL_TPLS + NET_TPLS + THREE_TPLS + FRAC_TPLS + PRODARG_TPLS}}
    # ---- binding self-test: one corrupted expected value must be noticed by the comparison ---------------------
    probe = next(s for s in scns if s["outcome"] == "ok" and s["tpl"] == "bi")
    probe_obs = observe(probe)
    if judge(probe, probe_obs) is None:          # (a tree that already fails the probe is reported below, as a verdict)
        for field in ("dy", "init", "args"):
            bent = json.loads(json.dumps(probe))
            if field == "dy":
                k = sorted(fn_to_dict(bent["pts"][1]["dy"]))[0]
                bent["pts"][1]["dy"][k] += 1
            elif field == "init":
                k = sorted(fn_to_dict(bent["init"]))[-1]
                bent["init"][k] += 1
            else:
                bent["rxns"][0]["args"] = list(reversed(bent["rxns"][0]["args"]))
            if judge(bent, probe_obs) is None:
                raise MachineryError(f"a corrupted expected value ({field}) was not noticed by the replay comparison")
    rep.notes["binding_selftest"] = "corrupting one expected dy / initial value / argument list of a replayed case is detected; " \
                                    "a corrupted recorded observation is rejected by TLC (oracle)"
    # ---- spec -> code --------------------------------------------------------------------------------------
    results = pmap(_work, scns, procs=8, chunk=32)
    for scn, (bad, cross) in zip(scns, results):
        if cross is not None:
            raise MachineryError(f"rendered base model disagrees with the specification's base semantics: {cross}")
        rep.replayed += 1
        rep.evaluations += 1
        if nontrivial(scn):
            rep.distinct.add((scn["tpl"], case_key(scn)))
        if bad is not None:
            slim = {"tpl": scn["tpl"], "ord": scn.get("ord"), "b": scn["b"], "req": scn["req"], "outcome": scn["outcome"]}
            for f in ("rxns", "init", "pts", "probe"):
                if f in scn:
                    slim[f] = scn[f]
            rep.mismatch(slim, bad, classify(scn, bad))
    for s in [x for x in scns if x["outcome"] == "ok" and nontrivial(x)][:: max(1, len(scns) // 3)][:3]:
        rep.sample({"tpl": s["tpl"], "nl": s["b"]["nl"], "maps": {r["name"]: r["map"] for r in s["b"]["rxns"] if r["mapped"]},
                    "req": s["req"], "n_reactions": len(s["rxns"]),
                    "first_reaction": sorted(s["rxns"], key=lambda r: r["name"])[0],
                    "dy_at_state_1": s["pts"][0]["dy"]})
    n_three = sum(1 for s in scns if s["outcome"] == "ok" and s["tpl"] in THREE_TPLS)
    if n_three < 100:
        raise MachineryError(f"only {n_three} accepted cases with three units on one side of a mapped reaction")
    rep.notes["cases"]["three_units_on_a_side"] = n_three
    n_frac = sum(1 for s in scns if s["outcome"] == "ok" and any(int(r.get("den", 1)) > 1 for r in s["b"]["rxns"]))
    if n_frac < 10:
        raise MachineryError(f"only {n_frac} cases with an unmapped reaction that has non-integer coefficients")
    rep.notes["cases"]["unmapped_reaction_with_fractional_coefficients"] = n_frac
    n_wild = sum(1 for s in scns if s["outcome"] == "ok" and s.get("probe"))
    if n_wild < 10:
        raise MachineryError(f"only {n_wild} cases with a mapped reaction whose rate reads its own tracked product")
    rep.notes["cases"]["rate_reads_own_tracked_product"] = n_wild
    # ---- sessions on one mapper object -------------------------------------------------------------------------
    memo = ctx.tlc("LabelExpandSession.tla", "LabelExpandSession_memo.cfg", expect_violation=True, workers=4)
    if memo.violated != "Faithful":
        raise MachineryError("Memo=TRUE (isotopomer table generated once per mapper) should violate Faithful; "
                             f"TLC said {memo.violated!r}: the session specification has lost its teeth")
    rep.notes["memo_shape_counterexample"] = "TLC: Faithful violated for Memo=TRUE (table memoised at first use, fields changed, build)"
    scfg = ctx.write_cfg("sessions.cfg", SESSION_CFG.format(
        maxnl=2 if ctx.quick else 1, maxsets=1 if ctx.quick else 2, styles='{"id"}'))
    cfgs = [("sessions", scfg)]
    if not ctx.quick:
        cfgs.append(("sessions2", ctx.write_cfg("sessions2.cfg", SESSION_CFG.format(maxnl=2, maxsets=1, styles='{"id", "rev"}'))))
    sessions = []
    for tag, cfgp in cfgs:
        res = ctx.tlc("LabelExpandSession.tla", str(cfgp), tag=tag, workers=4, jvm=["-Xmx4g"])
        rep.add_tlc(res, "sessions on one mapper: first use (build | get | get, tamper) x field mutations (count added / changed / "
                         "removed, map style; in place | by assignment) each followed by build; control build, build")
        sessions += res.payloads
    if len(sessions) < 1000:
        raise MachineryError(f"only {len(sessions)} mapper sessions emitted")
    kinds = {st["op"]["k"] for s_ in sessions for st in s_["steps"]}
    if kinds != {"build", "get", "tamper", "set", "style"}:
        raise MachineryError(f"session family does not exercise every operation: {sorted(kinds)}")
    sres = pmap(_work_session, sessions, procs=8, chunk=16)
    n_sess_bad = 0
    for sess, (bad, crash) in zip(sessions, sres):
        if crash is not None:
            raise MachineryError(crash)
        rep.replayed += 1
        rep.evaluations += 1
        rep.distinct.add(("session", json.dumps([[st["op"], st["fields"]] for st in sess["steps"]], sort_keys=True)))
        if bad is not None:
            n_sess_bad += 1
            rep.mismatch({"session": [{"op": st["op"], "fields": st["fields"], "maps": st["maps"]} for st in sess["steps"]],
                          "steps": sess["steps"]}, bad, None)
    rep.notes["sessions"] = {"total": len(sessions), "not_conforming": n_sess_bad,
                             "builds": sum(1 for s_ in sessions for st in s_["steps"] if st["op"]["k"] == "build")}
    # ---- code -> spec --------------------------------------------------------------------------------------
    cases = doc_example_cases()
    n_rand = 300 if ctx.quick else 4000
    rnd = random.Random(ctx.seed)
    cases += pmap(random_case, [(rnd.randrange(1 << 30), f"rand-{j}") for j in range(n_rand)], procs=8, chunk=16)
    # binding self-test: the documentation example's record with one observed derivative off by one must be rejected
    bent = json.loads(json.dumps(cases[0]))
    bent["id"] = "selftest-corrupted-observation"
    if bent["obs"]["pts"]:
        k0 = sorted(bent["obs"]["pts"][0]["dy"])[0]
        bent["obs"]["pts"][0]["dy"][k0] += 1
    else:                                        # (the tree under test refused the documentation example)
        bent["obs"]["outcome"] = "ok"
    cases.append(bent)
    for c in cases:
        if "harness_exception" in c:
            raise MachineryError(f"random driver failed on {c['id']}:\n{c['harness_exception']}")
    verdicts = {}
    batch = 1000
    for lo in range(0, len(cases), batch):
        cf = ctx.work / f"cases_{lo}.json"
        cf.write_text(json.dumps(cases[lo:lo + batch]))
        res = ctx.tlc("LabelExpandOracle.tla", "LabelExpandOracle.cfg", tag=f"oracle{lo}", env={"CASE_FILE": str(cf)}, workers=1)
        rep.add_tlc(res, "oracle: expansions produced by the real LabelMapper (doc example, random networks) judged by the definition")
        for p in res.payloads:
            verdicts[p["id"]] = p
    if len(verdicts) != len(cases):
        raise MachineryError(f"oracle judged {len(verdicts)} of {len(cases)} cases")
    if verdicts["selftest-corrupted-observation"]["verdict"] == "accept":
        raise MachineryError("TLC accepted a recorded observation with a corrupted derivative: "
                             f"{verdicts['selftest-corrupted-observation']}")
    cases = [c for c in cases if c["id"] != "selftest-corrupted-observation"]
    hist: dict[str, int] = {}
    for c in cases:
        v = verdicts[c["id"]]
        hist[v["verdict"]] = hist.get(v["verdict"], 0) + 1
        if v["verdict"] == "outside-domain":
            continue
        rep.evaluations += 1
        rep.distinct.add(("oracle", c["id"]))
        if v["verdict"] == "accept":
            rep.traces += 1
        else:
            scn = {"b": c["b"], "req": c["req"], "outcome": "?", "oracle_case": c}
            detail = {"what": {"rhs": "right-hand side (oracle)", "sum-rule": "right-hand side (oracle)",
                               "reactions": "arguments or stoichiometry (oracle)"}.get(v["verdict"], v["verdict"]),
                      "oracle_verdict": v["verdict"]}
            key = classify(scn, {"what": "arguments"}) if v["verdict"] in ("reactions", "rhs", "sum-rule") else None
            rep.mismatch(scn, detail, key)
    rep.notes["oracle_verdicts"] = hist
    doc = [verdicts[c["id"]] for c in cases if c["id"].startswith("doc-")]
    if not doc or any(d["nrxn"] != 144 for d in doc):
        raise MachineryError(f"documentation example not judged as expected: {doc}")
    rep.notes["doc_example"] = {d["id"]: d["verdict"] for d in doc}
    return rep.finish()


def replay(ctx: Ctx, doc: dict) -> int:
    scn = doc["scenario"]
    if "session" in scn:
        bad = replay_session({"steps": scn["steps"]})
        print(json.dumps({"session": scn["session"], "detail": bad}, indent=1, default=str))
        if bad is not None:
            print("VIOLATION property=C05 replay=(given)")
            return 1
        print("conforms")
        return 0
    if "oracle_case" in scn:
        c = scn["oracle_case"]
        if "seed" in c:
            c = random_case((c["seed"], c["id"]))      # re-observe the real code on the same random network
        elif c["id"].startswith("doc-"):
            c = next(x for x in doc_example_cases() if x["id"] == c["id"])
        cf = ctx.work / "case.json"
        cf.write_text(json.dumps([c]))
        res = ctx.tlc("LabelExpandOracle.tla", "LabelExpandOracle.cfg", tag="oracle", env={"CASE_FILE": str(cf)}, workers=1)
        v = res.payloads[0]["verdict"]
        print(json.dumps({"recorded_case": c["id"], "verdict_of_TLC_on_the_recorded_observation": v}))
        bad = v not in ("accept", "outside-domain")
    else:
        obs = observe(scn)
        detail = judge(scn, obs)
        print(json.dumps({"scenario": {k: scn[k] for k in ("tpl", "b", "req", "outcome") if k in scn},
                          "detail": detail}, indent=1, default=str))
        bad = detail is not None
    if bad:
        print("VIOLATION property=C05 replay=(given)")
        return 1
    print("conforms")
    return 0
